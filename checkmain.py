"""Entry point: ./check <ID> [--tier quick|thorough] | ./check --replay <file>"""
import argparse
import importlib
import json
import os
import sys

HERE = os.path.dirname(os.path.abspath(__file__))
sys.path.insert(0, HERE)


def main():
    ap = argparse.ArgumentParser()
    ap.add_argument("pid", nargs="?")
    ap.add_argument("--tier", default=os.environ.get("VERIF_TIER", "quick"))
    ap.add_argument("--replay")
    ap.add_argument("--selftest", action="store_true")
    ap.add_argument("--seed", default=os.environ.get("VERIF_SEED", "0"))
    a = ap.parse_args()
    if a.selftest:
        from symx import selftest
        return selftest.main()
    if a.replay:
        from symx.report import realrun
        with open(a.replay) as f:
            rp = json.load(f)
        print(json.dumps(rp.get("what"), indent=1))
        case = rp["payload"].get("case")
        if case is not None:
            print(json.dumps(realrun([case])[0], indent=1))
        return 0
    mod = importlib.import_module("checks." + a.pid.lower())
    from symx import driver
    try:
        rc = mod.main(a.tier, int(a.seed or 0))
    finally:
        driver.close_pool()
    return rc


if __name__ == "__main__":
    sys.exit(main())
