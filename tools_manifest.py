"""Regenerates MANIFEST.json from the table below (keeps it valid and in sync)."""
import json

NA = [
    ("C01", "Convergence of an unbounded float64 iteration to a KKT point has no bound after which it can be asserted; one iteration already contains Cholesky/dcstep algebra. Its per-step lemmas are decided under C08/C09/C11/C04 (DESIGN.md C01)."),
    ("C12", "The reference is SciPy's compiled Fortran/C _lbfgsb extension behind FFI: it cannot be executed symbolically or encoded with the tools present; obtaining reference iterates means running it on concrete inputs, which is sampling (DESIGN.md C12)."),
]

CHECKS = {
    "C08": dict(text="Bounded symbolic model checking of the real get_cauchy_point: every path for all real x, g, l, u of shape n<=2 (thorough n=3) under every finite/infinite bound pattern, against the definition (first local minimiser along the projected path with a dense BFGS matrix). Bounded in n, m and memory contents; exact real arithmetic, not float64.",
                note="Trusted: the symx NumPy/SciPy shim (validated each run by replaying path witnesses on the real function), z3 nlsat. Assumes l<=x<=u, non-zero projected gradient, |g_i| in {0} u [2^-10,2^10].",
                tech="DSE over the real source + z3 QF_NRA per path; oracle = definition of the GCP with dense B", ref="DESIGN.md C08"),
    "C09": dict(text="Bounded symbolic model checking of the real get_freev + subspace_minimization (alone from an arbitrary feasible Cauchy point, and after the real get_cauchy_point), n=2 (thorough n=3), m<=1 (thorough m=2): result equals the box-truncated Newton point of the dense model, active variables fixed, in the box, model not increased, descent direction.",
                note="Trusted: symx shim incl. its Cholesky/triangular-solve/Gaussian elimination over exact terms (witness-replayed on the real code each run), z3. Memory pairs are concrete rational instances; exact real arithmetic.",
                tech="DSE over the real source + z3 QF_NRA per path with rational-function normal forms; oracle = truncated Newton point with dense B", ref="DESIGN.md C09"),
    "C10": dict(text="Bounded symbolic model checking of the real update_lbfgs_matrices / update_X_and_G / form_invMfactors / bmv: (a) one update from an arbitrary valid memory state (inductive step for the deque discipline, curvature test, rejection is a no-op), (b) compact representation = dense BFGS recursion, symmetric, PD, secant, theta, with symbolic correction pairs. Identities are decided on rational-function normal forms, inequalities by z3.",
                note="Trusted: symx shim (Cholesky and triangular solves over exact terms with algebraic square-root atoms), sympy polynomial gcd, z3. m>=2: older pairs are concrete instances; PD for m>=2 only on the family y = A s.",
                tech="DSE over the real source; normal-form identity + z3 QF_NRA; inductive step from an arbitrary valid state", ref="DESIGN.md C10"),
    "C19": dict(text="For each of the eight benchmark pairs and each n up to the bound, the real f is executed on a symbolic x, the resulting term is differentiated by rule and compared with the real f_grad for all x in the domain: an identity of normal forms (polynomial pairs, Rastrigin) or a z3 query with sin/cos/exp uninterpreted (Ackley, Griewank).",
                note="Trusted: symx shim, the differentiation rules in symx/diff.py (cross-checked every run against a Richardson derivative of the real functions at the path witnesses), z3.",
                tech="symbolic execution + term-level differentiation; normal-form identity / z3 QF_NRA with Ackermannised transcendental functions", ref="DESIGN.md C19"),
    "C03": dict(text="Bounded symbolic model checking of the real main.py + scalar_function.py for one iteration under the full configuration lattice (maxiter, maxfun, maxls, ftol, ftarget, callback outcome; fresh start and arbitrary checkpoint) and two iterations with a lean line search, plus the REAL line_search inside the run: the oracle's objective values at x0, callback states and the result never increase; a failed line search leaves the iterate.",
                note='Trusted: symx shim, the kernel contracts used as stubs (direction in the box and descent [C08/C09], line search returns None or an evaluated strictly better trial within its budget [C11]), z3. Decided modulo those contracts; scenarios of all counterexamples are replayed on the real public API over a battery of concrete problems.',
                tech='DSE over the real orchestration code with contract stubs + uninterpreted objective; z3 per path', ref='DESIGN.md C03'),
    "C04": dict(text='Same exploration; obligations on the returned object: documented message, each message true of the returned state (projected gradient, target, nit, nfev, callback), success iff not abnormal, nit/nfev budgets, callable ftarget/gtol invoked once. One step from an arbitrary coherent checkpoint makes the bookkeeping inductive.',
                note='Trusted: symx shim, the kernel contracts used as stubs (direction in the box and descent [C08/C09], line search returns None or an evaluated strictly better trial within its budget [C11]), z3. Decided modulo those contracts; scenarios of all counterexamples are replayed on the real public API over a battery of concrete problems.',
                tech='DSE over the real orchestration code with contract stubs; z3 per path; scenario replay', ref='DESIGN.md C04'),
    "C05": dict(text="Same exploration; result.fun/jac (and every callback state's) are the uninterpreted objective/gradient at exactly result.x (Ackermann-consistent lookup, an unevaluated x fails), counters equal the number of oracle calls plus the checkpoint's.",
                note='Trusted: symx shim, the kernel contracts used as stubs (direction in the box and descent [C08/C09], line search returns None or an evaluated strictly better trial within its budget [C11]), z3. Decided modulo those contracts; scenarios of all counterexamples are replayed on the real public API over a battery of concrete problems.',
                tech='DSE with uninterpreted objective (Ackermann) over the real main.py/ScalarFunction; z3 per path', ref='DESIGN.md C05'),
    "C06": dict(text='Relational bounded model checking: uninterrupted, stopped-at-k, no-op restart, restart to k+1 and to K (maxcor kept or reduced; chains in thorough) of the real main.py/initialize_X_and_G/update_lbfgs_matrices in one path context with functional stubs; pairs carried over, state handed to the next direction computation, next iterate and (when the split update was stored) the whole continuation are equal as terms.',
                note='Trusted: symx shim, the kernel contracts used as stubs (direction in the box and descent [C08/C09], line search returns None or an evaluated strictly better trial within its budget [C11]), z3. Decided modulo those contracts; scenarios of all counterexamples are replayed on the real public API over a battery of concrete problems.',
                tech='relational DSE, functional (Ackermann) kernel stubs, z3 equality of terms; scenario replay on the real API', ref='DESIGN.md C06'),
    "C07": dict(text='Relational bounded model checking with a state-retaining callback: each retained state (inspected after the run, so in-place mutation shows) equals the result of maxiter=k, is unchanged after the callback returned, xk equals state.x, a callback returning False does not alter the run, and a restart from the retained object gives the uninterrupted continuation.',
                note='Trusted: symx shim, the kernel contracts used as stubs (direction in the box and descent [C08/C09], line search returns None or an evaluated strictly better trial within its budget [C11]), z3. Decided modulo those contracts; scenarios of all counterexamples are replayed on the real public API over a battery of concrete problems.',
                tech='relational DSE with mutation-faithful shim arrays; z3 equality of terms; scenario replay', ref='DESIGN.md C07'),
    "C11": dict(text="Bounded symbolic model checking of the real line_search + max_allowed_steplength + SciPy's DCSRCH._iterate (tail cut to its postcondition; thorough also uncut) with an uninterpreted objective on the ray: evaluations within the cap, trial points in the box, returned step positive, feasible, evaluated and strictly downhill, no exception; T <= 2 (thorough 3-4) trials.",
                note='Trusted: symx shim, z3. DCSRCH tail replaced by its postcondition (any next trial in [stpmin, stpmax], interval state havocked): a sound over-approximation of the trial sequence. Assumes feasible x0 and x0+d, descent direction.',
                tech='DSE + uninterpreted objective (Ackermann) + z3 QF_LRA/NRA; replay on the real line_search with a Hermite interpolant of the model and a battery of ray functions', ref='DESIGN.md C11'),
    "C18": dict(text="(i) in every explored orchestration run (fresh, restart, 1-2 iterations) the pairs of hess_inv are differences of a chronological chain of visited iterates and of the oracle gradients there, at most maxcor, s.y > 0; (ii) real extract_hess_inv_diag on SciPy's LbfgsInvHessProduct source equals diag(todense()) and the inverse-BFGS recursion for symbolic pairs (identity of normal forms).",
                note='Trusted: symx shim, the kernel contracts used as stubs (direction in the box and descent [C08/C09], line search returns None or an evaluated strictly better trial within its budget [C11]), z3. Decided modulo those contracts; scenarios of all counterexamples are replayed on the real public API over a battery of concrete problems.',
                tech='DSE; existence of a provenance chain decided by z3; normal-form identities for the diagonal utility', ref='DESIGN.md C18'),
    "C13": dict(text='Relational bounded model checking with an update-function oracle: (i) an identity update leaves result, callback states and evaluation points identical for symbolic ftol/ftarget; (ii) a switch to a second uninterpreted objective with rewritten gradients at update call 0..2: result pairs are differences of the rewritten gradients at visited points (chain decided by z3), satisfy the curvature condition, and the state handed to the next direction computation equals that of a restart on the new objective from the rewritten, filtered history.',
                note='Trusted: symx shim, the kernel contracts used as functional stubs [C08/C09/C11], z3. Decided modulo those contracts with n=1; scenarios of all counterexamples are replayed on the real public API over a battery of concrete problems.',
                tech='relational DSE with update-function oracle; z3 equality of terms / provenance chain; scenario replay (objective switches incl. negated objective)', ref='DESIGN.md C13'),
    "C14": dict(text='Relational bounded model checking in one module namespace: repeated call with another problem between, a complete other run nested inside an objective call at a symbolic index, read-only x0/bounds/checkpoint arrays accepted and unchanged, two restarts from one checkpoint object (with and without scaler) equal, logging (iprint levels, recording logger) without numerical influence, no module-level state changed.',
                note='Trusted: symx shim, the kernel contracts used as functional stubs [C08/C09/C11], z3. Decided modulo those contracts with n=1; scenarios of all counterexamples are replayed on the real public API over a battery of concrete problems.',
                tech='relational DSE with mutation-faithful arrays and read-only flags; z3 equality of terms; scenario replay', ref='DESIGN.md C14'),
    "C17": dict(text='Relational bounded model checking: scaler oracle returning symbolic s in [1e-3,1e3] vs the run on s*f, s*grad f: equal results, evaluation points and callback states, scaler invoked once with the start point and its unscaled gradient, target tested on the unscaled value; plus the packaged unit scaler against 1/max|x-clip(x-g)| for all real inputs (n<=2).',
                note='Trusted: symx shim, the kernel contracts used as functional stubs [C08/C09/C11], z3. Decided modulo those contracts with n=1; scenarios of all counterexamples are replayed on the real public API over a battery of concrete problems.',
                tech='relational DSE; z3 equality of terms; scenario replay', ref='DESIGN.md C17'),
    "C20": dict(text='Fault-injecting bounded model checking: each of the seven kinds of user callable raises at a symbolic call index an exception of a symbolic type (the types the package catches plus controls); the very exception object must escape minimize_lbfgsb and a fault-free call afterwards must equal the one before; no module-level state changes.',
                note='Trusted: symx shim, the kernel contracts used as functional stubs [C08/C09/C11], z3. Decided modulo those contracts with n=1; scenarios of all counterexamples are replayed on the real public API over a battery of concrete problems.',
                tech='fault-injecting DSE (symbolic call index and exception type); scenario replay of every kind x type x index on the real API', ref='DESIGN.md C20'),
    "C02": dict(text="Bit-precise bounded model checking (z3 QF_FP, IEEE binary64): the real clip2bounds, line_search (DCSRCH tail cut) with main.py's iterate-update statements, subspace_minimization (thorough: get_cauchy_point), n=1 (thorough 2), empty memory: every point produced satisfies lb <= p <= ub with exact float comparisons for ALL finite inputs in range; plus the exact-real run-level exploration that every point handed to the user's callables, reported and returned is in the box and fixed components never move.",
                note="Trusted: symx shim in IEEE mode (each operation is the z3 FP operation with RNE; validated by replaying witnesses and every counterexample on the real kernels), z3's FP theory. Undecided queries are retried on a term-depth abstraction / cone-of-influence slice (sound for unsat). Memory m>=1 in float64 (BLAS, Cholesky) is not bit-modelled.",
                tech='DSE over the real source with IEEE-754 binary64 terms (z3 QF_FP) + abstraction/slicing; run-level part as C04', ref='DESIGN.md C02'),
    "C15": dict(text='Bounded model checking of the real ScalarFunction/prepare_scalar_function over every history of up to 4 (callable) / 3 (finite-difference modes) operations from {fun, grad, fun_and_grad, caller mutates the array it passed, scaling factor changed} with symbolic points (aliasing decided by the solver): answers are fresh evaluations times the current factor, counters equal calls, no re-evaluation at the cached point.',
                note='Trusted: symx shim, approx_derivative stub (evaluates the wrapped objective at n/2n stencil points, returns an uninterpreted gradient), z3.',
                tech='DSE with uninterpreted user functions (Ackermann) over all operation histories up to the bound', ref='DESIGN.md C15'),
    "C16": dict(text="What this package contributes to the finite-difference modes: (1) bit-precise (QF_FP) proof that the iterate handed to the differencing routine and every trial point are inside the box exactly, so SciPy's bound check cannot raise; (2) method / step / bounds / base value f(x) passed through to approx_derivative and nfev counting stencil evaluations, at wrapper level for all histories and at run level (fresh, two iterations, with scaler).",
                note="Trusted: as C02 and C15. SciPy's differencing accuracy and its stencil adjustment at the bounds are assumed by contract; 'matches the exact-gradient solution to the accuracy of the scheme' is not decided.",
                tech='QF_FP DSE for the at-the-bound part; DSE with a recording approx_derivative stub for the plumbing', ref='DESIGN.md C16'),
}


def main():
    checks = []
    for pid in sorted(CHECKS):
        c = CHECKS[pid]
        checks.append(dict(
            property_id=pid,
            quick_cmd="./check %s --tier quick" % pid,
            thorough_cmd="./check %s --tier thorough" % pid,
            evidence_file="evidence/%s.json" % pid,
            replay_cmd_template="./check --replay {path}",
            engine="symx",
            level_claimed=dict(category="model_checking", text=c["text"], design_ref=c["ref"]),
            level_note=c["note"],
            technique=c["tech"],
        ))
    man = dict(
        version=1,
        setup_cmd="python3-vt checkmain.py --selftest",
        hooks=dict(guard="LBFGSB_VERIF", enable="no source hooks: checks load /repo/lbfgsb/*.py from source into a symbolic copy; replays import the working tree with LBFGSB_VERIF=1 (unused by the package)",
                   baseline_off_cmd="cd /repo && /venv/bin/python -m pytest -q -p no:cacheprovider --timeout=900", source_commits=[], add_only=True),
        engines=[dict(name="symx", path="symx/", serves_properties=sorted(CHECKS),
                      kind_free_text="dynamic symbolic execution of the repository's Python sources against a symbolic NumPy/SciPy shim whose scalars are z3 Real terms; one SMT query per branch/obligation (z3 QF_NRA/QF_LRA), counterexamples replayed on the real package under /venv/bin/python")],
        checks=checks,
        notes="Exit codes: 0 held on everything explored; 1 replay-confirmed violation (VIOLATION line); 2 harness error / inconclusive. See DESIGN.md.",
        not_applicable=[dict(property_id=p, reason=r) for p, r in NA] + [
            dict(property_id=p, reason="not built yet in this session (see DESIGN.md for the plan); no claim is made") for p in
            ["C%02d" % i for i in range(1, 21)] if p not in CHECKS and p not in dict(NA)],
    )
    with open("MANIFEST.json", "w") as f:
        json.dump(man, f, indent=1)


if __name__ == "__main__":
    main()
