#!/bin/sh
# usage: tools/try_patch.sh <patch.diff> <check id>...   : apply patch to /repo, run quick checks, restore
P="$(realpath "$1")"; shift
cd /repo || exit 2
git diff --quiet || { echo "repo dirty"; exit 2; }
git apply "$P" || { echo "patch does not apply"; exit 2; }
cd /verif
for id in "$@"; do
  ./check "$id" --tier ${TIER:-quick} > /tmp/try_$id.out 2>&1; rc=$?
  echo "== $id rc=$rc"; grep -E "^(VIOLATION|KNOWN|HARNESS)" /tmp/try_$id.out | head -5; tail -1 /tmp/try_$id.out | cut -c1-200
done
git -C /repo checkout -- .
