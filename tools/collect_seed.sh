#!/bin/sh
# usage: tools/collect_seed.sh <worktree> <seed-name> <property>
WT="$1"; NAME="$2"; PROP="$3"
D=/verif/seeded/$NAME; mkdir -p "$D"
git -C "$WT" diff > "$D/patch.diff"
cp "$WT/demo.py" "$D/demo.py"
cd "$WT" || exit 2
echo "--- tests with change"; /venv/bin/python -m pytest -q -p no:cacheprovider -x 2>&1 | tail -1
echo "--- demo with change"; /venv/bin/python demo.py > /tmp/demo_with.out 2>&1; RC1=$?; echo "rc=$RC1"; tail -2 /tmp/demo_with.out
git apply -R "$D/patch.diff"
echo "--- demo without change"; /venv/bin/python demo.py > /tmp/demo_without.out 2>&1; RC2=$?; echo "rc=$RC2"; tail -1 /tmp/demo_without.out
git apply "$D/patch.diff"
echo "property=$PROP demo_with_rc=$RC1 demo_without_rc=$RC2" > "$D/verify.txt"
