#!/bin/sh
# usage: tools/try_seed.sh <seed-dir-name> <check id>...
# Applies seeded/<name>/patch.diff to a scratch worktree of /repo (never to /repo itself) and runs the
# checks against it via SYMX_REPO; evidence and replays go to a scratch directory.
NAME="$1"; shift
WT=/tmp/seedwt_$NAME
git -C /repo worktree remove --force "$WT" >/dev/null 2>&1
git -C /repo worktree add -q --detach "$WT" HEAD || exit 2
git -C "$WT" apply "/verif/seeded/$NAME/patch.diff" || { echo "patch does not apply"; git -C /repo worktree remove --force "$WT"; exit 2; }
cd /verif
for id in "$@"; do
  SYMX_REPO="$WT" SYMX_EVIDENCE_DIR=/tmp/seed_ev_$NAME SYMX_REPLAY_DIR=/tmp/seed_rp_$NAME ./check "$id" --tier ${TIER:-quick} > /tmp/seed_${NAME}_$id.out 2>&1; rc=$?
  echo "== $NAME $id rc=$rc"; grep -E "^(VIOLATION|KNOWN|HARNESS)" /tmp/seed_${NAME}_$id.out | head -4 | cut -c1-400; grep -A1 "^VIOLATION" /tmp/seed_${NAME}_$id.out | grep "^  " | head -2 | cut -c1-300; tail -1 /tmp/seed_${NAME}_$id.out | cut -c1-220
done
git -C /repo worktree remove --force "$WT"
rm -rf /tmp/seed_ev_$NAME
