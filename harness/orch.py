"""Orchestration harness: the real main.py / scalar_function.py / base.py / bfgsmats.py executed
symbolically, with the three numerical kernels replaced by contract stubs (DESIGN.md 1.3).

The kernels' contracts (what C08/C09/C11 establish):
  direction   xbar = D(x, grad, S, Y) with lb <= xbar <= ub and grad.(xbar - x) < 0   (functional)
  line_search evaluates <= max_iter trial points x + a d, 0 < a <= 1, returns None or an evaluated a with f(x + a d) < f0
  form_invMfactors opaque, functional
"""
from __future__ import annotations

import z3

from symx.core import CTX, PathAbort, Unsupported
from symx.scalar import SReal, SBool, INF, NINF, ITE_MODE
from symx.arr import SArr
from symx.oracle import UF, _eq_point
from . import common


def _b(e):
    return e if isinstance(e, bool) else e.e


class State:
    """Per-path state shared with the stubs."""

    def __init__(self):
        self.reset()

    def reset(self):
        self.dir_uf = None
        self.alpha_uf = None
        self.ls_mode = "lean"
        self.ls_tmax = 2
        self.ls_memo = {}
        self.assume_new_trial = False
        self.dir_calls = []
        self.ls_calls = []
        self.fd_calls = []
        self.run = None       # current Run (for logs)


ST = State()


def _key(*arrays):
    out = []
    for a in arrays:
        if isinstance(a, SArr):
            out.append(("arr", a.shape, tuple(_key1(d) for d in a.data)))
        else:
            out.append(_key1(a))
    return tuple(out)


def _key1(d):
    if isinstance(d, SReal):
        if d.is_symbolic:
            return ("z", d.z().get_id())
        return ("c", repr(d.v))
    return ("p", repr(d))


def _flat(*arrays):
    out = []
    for a in arrays:
        if isinstance(a, SArr):
            out.extend(a.data)
        else:
            out.append(a)
    return [SReal.of(v) for v in out]


# ---------------------------------------------------------------------------
# stubs installed into the symbolic copy of lbfgsb.main / lbfgsb.bfgsmats


def stub_get_cauchy_point(x, grad, lb, ub, mats, nit, iprint, logger=None):
    return ("xcp-token", x, grad, mats), None


def stub_get_freev(x_cp, lb, ub, nit, free_vars_old=None, iprint=-1, logger=None):
    W = common.world("orch")
    return W.np.array([], dtype=int), None, None


def stub_subspace_minimization(x, x_cp, free_vars, Z, A, c, grad, lb, ub, mats, is_check_factorizations=False):
    W = common.world("orch")
    np = W.np
    n = x.shape[0]
    S, Y = mats.S, mats.Y
    nm = S.shape[1] if _has_pairs(mats) else 0
    args = _flat(x, grad) + ([] if nm == 0 else _flat(S, Y))
    if ST.dir_uf is None:
        ST.dir_uf = {}
    uf = ST.dir_uf.setdefault((n, nm), UF("xbar_m%d_" % nm, n))
    vals = uf(args)
    gd = SReal.of(0)
    for i in range(n):
        v = vals[i]
        if not lb.data[i].is_special:
            CTX.assume(v.z() >= lb.data[i].z(), check=False)
        if not ub.data[i].is_special:
            CTX.assume(v.z() <= ub.data[i].z(), check=False)
        gd = gd + grad.data[i] * (v - x.data[i])
    CTX.assume(_b(gd < 0), contract="direction")
    xbar = np.array(list(vals))
    ST.dir_calls.append(dict(x=list(x.data), grad=list(grad.data), S=S if nm else None, Y=Y if nm else None, theta=mats.theta, xbar=list(vals), nm=nm))
    return xbar


def _has_pairs(mats):
    inv = mats.invMfactors[0]
    return getattr(inv, "_symx_token", False)


def stub_form_invMfactors(theta, STS, L, D):
    W = common.world("orch")
    a, b = W.np.ones((1, 1)), W.np.ones((1, 1))
    a._symx_token = True
    return (a, b)


def stub_line_search(x0, f0, g0, d, lb, ub, above_iter, max_steplength_user, is_boxed, sf, ftol=1e-3, gtol=0.9,
                     xtol=1e-1, max_iter=30, iprint=10, logger=None, *a, **k):
    """Contract stub.  Deterministic given its (syntactic) inputs so that two runs in lock-step agree."""
    # the real line search treats the very first iteration (above_iter == 0) differently (first trial step,
    # step cap): the contract is functional in the inputs AND in that flag, which the caller must pass
    # identically in an uninterrupted run and in a restarted one
    first = bool(int(above_iter) == 0)
    key = _key(x0, f0, g0, d, max_iter) + (("first", first),)
    n = x0.shape[0]
    memo = ST.ls_memo.get(key)
    if memo is None:
        memo = dict(alphas=[], ret=None, decided=False)
        ST.ls_memo[key] = memo
    T = min(int(max_iter), ST.ls_tmax)
    rec = dict(x0=list(x0.data), f0=f0, d=list(d.data), max_iter=int(max_iter), trials=[], ret=None)
    ST.ls_calls.append(rec)
    if T <= 0:
        raise Unsupported("line_search called with max_iter <= 0")
    evaluated = []
    if not memo["decided"]:
        ntr = 1 if ST.ls_mode in ("lean", "unit") else CTX.choose_int(1, T, "ls_trials")
        for j in range(ntr):
            if ST.ls_mode == "unit":
                al = SReal.of(1)
            elif ST.ls_mode == "lean":
                # functional in the (semantic) inputs, so that two runs fed equal states take equal steps
                if ST.alpha_uf is None:
                    ST.alpha_uf = {}
                uf = ST.alpha_uf.setdefault((n, int(max_iter), first), UF("alpha_n%d_%s" % (n, "it0_" if first else ""), 1))
                al = uf(_flat(x0, f0, g0, d))[0]
            else:
                al = SReal(CTX.fresh("alpha"))
            if al.is_symbolic:
                CTX.assume(z3.And(al.z() > 0, al.z() <= 1), check=False)
            memo["alphas"].append(al)
    for al in memo["alphas"]:
        # x0 + a d is a convex combination of x0 and xbar, both in the box: state it, so that the projection the
        # real code applies to trial points / the iterate is the identity syntactically (exact arithmetic)
        tp = x0 + al * d
        inbox = []
        for i in range(n):
            if not lb.data[i].is_special:
                inbox.append(_b(tp.data[i] >= lb.data[i]))
            if not ub.data[i].is_special:
                inbox.append(_b(tp.data[i] <= ub.data[i]))
        inbox = [c for c in inbox if c is not True]
        if inbox:
            CTX.assume(z3.And(*inbox) if len(inbox) > 1 else inbox[0], check=False, contract="line_search")
        if ST.assume_new_trial:
            # relational harnesses: a trial point is a new point (cuts the wrapper's memo-hit-by-coincidence fork)
            e = _eq_point(list((x0 + al * d).data), list(sf.x.data))
            if e is True:
                raise PathAbort("trial point equals the cached point")
            if e is not False:
                CTX.assume(z3.Not(e), check=False)
        fv, gv = sf.fun_and_grad(x0 + al * d)
        evaluated.append((al, fv))
        rec["trials"].append(al)
    if not memo["decided"]:
        memo["decided"] = True
        # which evaluated trial (strictly better than f0) is returned, or None
        choice = None
        for idx, (al, fv) in enumerate(evaluated):
            better = fv < f0
            if better is False:
                continue
            if ST.ls_mode in ("lean", "unit"):
                if bool(better):
                    choice = idx
                break
            if CTX.choose("ls_ret%d" % idx):
                CTX.assume(_b(better))
                choice = idx
                break
        memo["ret"] = choice
    if memo["ret"] is None:
        return None
    rec["ret"] = memo["alphas"][memo["ret"]]
    return rec["ret"]


def stub_approx_derivative(fun, x0, method="3-point", rel_step=None, abs_step=None, f0=None, bounds=(-INF, INF), **kw):
    """SciPy's approx_derivative by contract: raises iff x0 is outside the bounds; evaluates `fun` at stencil
    points inside the bounds (n for 2-point/cs, 2n for 3-point); returns an uninterpreted gradient."""
    W = common.world("orch")
    np = W.np
    x0 = np.asarray(x0)
    n = x0.shape[0]
    lb, ub = bounds
    lb = np.asarray(lb)
    ub = np.asarray(ub)
    lbd = lb.data if lb.ndim else [lb.data[0]] * n
    ubd = ub.data if ub.ndim else [ub.data[0]] * n
    for i in range(n):
        if bool(x0.data[i] < lbd[i]) or bool(x0.data[i] > ubd[i]):
            raise ValueError("`x0` violates bound constraints.")
    rec = dict(method=method, rel_step=rel_step, abs_step=abs_step, f0=f0, bounds=(lb, ub), x0=list(x0.data), pts=[])
    ST.fd_calls.append(rec)
    per = 2 if method == "3-point" else 1
    # SciPy's behaviour on a degenerate side: with lb_i == ub_i the adjusted step is zero (the "stencil" point is
    # x0 itself) and, for the real-valued schemes, the i-th derivative comes back as nan = 0/0
    # (validated on the real SciPy by replay/real_runs.py:fd_modes)
    degenerate = [bool(lbd[i] == ubd[i]) if not (lbd[i].is_special or ubd[i].is_special) else False for i in range(n)]
    for i in range(n):
        for s in range(per):
            if degenerate[i]:
                fun(np.array(list(x0.data)))
                rec["pts"].append(list(x0.data))
                continue
            # the step is a function of x0 (and of the fixed options/bounds): functional, so that two runs agree
            h = ST.run.prob.fd_h(list(x0.data) + [SReal.of(i), SReal.of(s)])[0]
            p = list(x0.data)
            p[i] = p[i] + h
            c = []
            if not lbd[i].is_special:
                c.append(p[i].z() >= lbd[i].z())
            if not ubd[i].is_special:
                c.append(p[i].z() <= ubd[i].z())
            c.append(h.z() != 0)
            CTX.assume(z3.And(*c), check=False, contract="approx_derivative")
            if method != "cs":
                fun(np.array(p))
            else:
                fun(np.array(p))
            rec["pts"].append(p)
    run = ST.run
    uf = run.prob.fd_grad
    vals = uf(list(x0.data))
    # a one-sided difference quotient depends on the base value it is given: g = FD(x0) + (f(x0) - f0) * w(x0)
    # (w > 0 functional); with the right f0 the correction vanishes
    us = run.user_scale()
    out = [v * us for v in vals]
    if f0 is not None and method != "cs":
        true = run.user_f(list(x0.data))
        w = run.prob.fd_w(list(x0.data))[0]
        CTX.assume(w.z() > 0, check=False)
        corr = (true - SReal.of(f0)) * w
        out = [v + corr for v in out]
    if method != "cs":
        from symx.scalar import NAN
        out = [SReal(NAN) if degenerate[i] else out[i] for i in range(n)]
    return np.array(out)


def install(W):
    """Install the stubs in the World (idempotent)."""
    main = W.load("lbfgsb.main")
    bm = W.load("lbfgsb.bfgsmats")
    sfm = W.load("lbfgsb.scalar_function")
    if getattr(main, "_symx_installed", False):
        return main
    main._symx_real = dict(get_cauchy_point=main.get_cauchy_point, get_freev=main.get_freev,
                           subspace_minimization=main.subspace_minimization, line_search=main.line_search,
                           prepare_scalar_function=main.prepare_scalar_function, form_invMfactors=bm.form_invMfactors)
    main.get_cauchy_point = stub_get_cauchy_point
    main.get_freev = stub_get_freev
    main.subspace_minimization = stub_subspace_minimization
    main.line_search = stub_line_search
    bm.form_invMfactors = stub_form_invMfactors
    sfm.approx_derivative = stub_approx_derivative
    real_prepare = main.prepare_scalar_function
    # `_lowest_f` bookkeeping forks on every evaluation; neutralise only if nothing reads it
    src = "".join(open(p).read() for p, _ in W.sources.values())
    reads = src.count("_lowest_x") + src.count("_lowest_f")
    neutral = reads <= 5     # the definitions/assignments in scalar_function.py itself

    def prepare(*a, **k):
        sf = real_prepare(*a, **k)
        if neutral:
            sf._lowest_f = SReal(NINF)
        if ST.run is not None:
            ST.run.sf = sf
        return sf
    main.prepare_scalar_function = prepare
    real_update = main.update_lbfgs_matrices

    def update(xk, gk, X, G, maxcor, mats, is_force_update, **k):
        before = len(X)
        last = X[-1] if before else None
        r = real_update(xk, gk, X, G, maxcor, mats, is_force_update, **k)
        if ST.run is not None:
            ST.run.updates.append(bool(len(X) and X[-1] is xk))
        return r
    main.update_lbfgs_matrices = update
    main._symx_installed = True
    return main


def use_real_line_search(W, on):
    main = W.load("lbfgsb.main")
    main.line_search = main._symx_real["line_search"] if on else stub_line_search


# ---------------------------------------------------------------------------
# problems and runs


class Problem:
    def __init__(self, ctx, W, n, pattern, name="p", R=64):
        self.n = n
        self.W = W
        np = W.np
        self.name = name
        xs, ls, us = [], [], []
        for i in range(n):
            x = SReal(ctx.real("%sx%d" % (name, i)))
            ctx.assume(z3.And(_b(x >= -R), _b(x <= R)), check=False)
            xs.append(x)
            if pattern[i][0] == "f":
                l = SReal(ctx.real("%sl%d" % (name, i)))
                ctx.assume(z3.And(_b(l <= x), _b(l >= -R)), check=False)
                ls.append(l)
            else:
                ls.append(None)
            if pattern[i][1] == "f":
                u = SReal(ctx.real("%su%d" % (name, i)))
                ctx.assume(z3.And(_b(x <= u), _b(u <= R)), check=False)
                us.append(u)
                if ls[-1] is not None:
                    ctx.assume(_b(ls[-1] <= u), check=False)
            else:
                us.append(None)
        self.x0 = xs
        self.lb = [SReal(NINF) if v is None else v for v in ls]
        self.ub = [SReal(INF) if v is None else v for v in us]
        self.bounds_list = [(ls[i], us[i]) for i in range(n)]
        self.f = UF(name + "f", 1)
        self.g = UF(name + "g", n)
        self.fd_grad = UF(name + "fdg", n)
        self.fd_w = UF(name + "fdw", 1)
        self.fd_h = UF(name + "fdh", 1)

    def x0_array(self):
        return self.W.np.array(list(self.x0))

    def bounds_array(self):
        np = self.W.np
        rows = []
        for lo, hi in self.bounds_list:
            rows.append([SReal(NINF) if lo is None else lo, SReal(INF) if hi is None else hi])
        return np.array(rows)


class Raise(Exception):
    pass


class Run:
    """One call of the symbolic minimize_lbfgsb."""

    def __init__(self, prob, label="run"):
        self.prob = prob
        self.label = label
        self.fcalls = []          # (point, value) per user objective call
        self.gcalls = []
        self.cb = []              # (xk, state, snapshot)
        self.result = None
        self.exc = None
        self.sf = None
        self.scaler_calls = []
        self.ftarget_calls = 0
        self.gtol_calls = 0
        self.upd_calls = []
        self.dir_calls = []
        self.ls_calls = []
        self.fd_calls = []
        self.faults = {}          # (kind, index) -> exception instance
        self.updates = []         # per update_lbfgs_matrices call: was the new pair stored?
        self.fu = prob.f          # the objective / gradient oracles currently in force (C13 switches them)
        self.gu = prob.g

    def user_f(self, pt):
        """value of THIS run's user objective at pt (no evaluation is counted)"""
        return self.fu(pt)[0]

    def user_scale(self):
        return SReal.of(1)

    def _fault(self, kind, idx):
        e = self.faults.get((kind, idx))
        if e is not None:
            raise e

    def fun(self, x, *args):
        # faults are one-shot: keyed on the number of ATTEMPTED calls, so that a retry after a swallowed fault succeeds
        self._nfun_attempts = getattr(self, "_nfun_attempts", 0) + 1
        self._fault("fun", self._nfun_attempts - 1)
        pt = list(x.data)
        v = self.fu(pt)[0]
        self.fcalls.append((pt, v))
        self._scribble(x)
        return v

    def _scribble(self, x):
        """A user callable that uses the array it is given as scratch space (legitimate: it is documented to receive a
        copy).  Overwrites every entry with a value far outside the box."""
        if getattr(self, "mutate_args", False) and isinstance(x, SArr) and x.flags.writeable:
            for i in range(len(x.data)):
                x.data[i] = SReal.of(-4096)

    def jac(self, x, *args):
        self._njac_attempts = getattr(self, "_njac_attempts", 0) + 1
        self._fault("jac", self._njac_attempts - 1)
        pt = list(x.data)
        v = self.gu(pt)
        self.gcalls.append((pt, v))
        self._scribble(x)
        if getattr(self, "jac_buffer", False):
            # a user gradient that fills one preallocated work array and returns it every time (legitimate: the
            # package must not keep a reference to what the user's callable returned)
            if getattr(self, "_gbuf", None) is None:
                self._gbuf = self.prob.W.np.array(list(v))
            else:
                for i, t in enumerate(v):
                    self._gbuf[i] = t
            return self._gbuf
        return self.prob.W.np.array(list(v))

    def execute(self, cfg):
        W = self.prob.W
        main = install(W)
        np = W.np
        ST.run = self
        d0, l0, f0 = len(ST.dir_calls), len(ST.ls_calls), len(ST.fd_calls)
        kw = dict(cfg)
        cb_kind = kw.pop("callback_kind", None)
        x0 = kw.pop("x0", None)
        if x0 is None:
            x0 = self.prob.x0_array()
        self.x0_in = x0
        self.x0_before = list(x0.data)
        bounds = kw.pop("bounds", None)
        if bounds is None:
            bounds = self.prob.bounds_array()
        self.bounds_in = bounds
        self.bounds_before = list(bounds.data)
        if cb_kind is not None:
            kw["callback"] = self.make_callback(cb_kind)
        if "jac" not in kw:
            kw["jac"] = self.jac
        try:
            self.result = main.minimize_lbfgsb(x0=x0, fun=self.fun, bounds=bounds, **kw)
        except (PathAbort, Unsupported):
            raise
        except BaseException as e:
            if type(e).__module__.startswith("symx"):
                raise
            self.exc = e
        finally:
            ST.run = None
            self.dir_calls = ST.dir_calls[d0:]
            self.ls_calls = ST.ls_calls[l0:]
            self.fd_calls = ST.fd_calls[f0:]
        return self

    def make_callback(self, kind):
        def cb(xk, state):
            self._fault("callback", len(self.cb))
            snap = snapshot_state(state)
            self.cb.append(dict(xk=xk, xk_snap=list(xk.data), state=state, snap=snap))
            if kind == "false":
                return False
            if kind == "true":
                return True
            if isinstance(kind, tuple) and kind[0] == "true_at":
                return len(self.cb) - 1 == kind[1]
            if kind == "choose":
                r = CTX.choose("cb%d" % len(self.cb))
                self.cb[-1]["ret"] = r
                return r
            raise ValueError(kind)
        return cb


def snapshot_state(st):
    """Deep snapshot of an OptimizeResult's numeric content (terms are immutable, arrays are copied)."""
    out = {}
    for k in ("fun", "nfev", "njev", "nit", "status", "message", "success"):
        out[k] = st.get(k)
    out["x"] = list(st["x"].data) if isinstance(st.get("x"), SArr) else st.get("x")
    out["jac"] = list(st["jac"].data) if isinstance(st.get("jac"), SArr) else st.get("jac")
    hi = st.get("hess_inv")
    if hi is not None:
        out["sk"] = (hi.sk.shape, list(hi.sk.data))
        out["yk"] = (hi.yk.shape, list(hi.yk.data))
    return out


def eqv(a, b):
    """z3 term / bool: a != b for SReal-like a, b."""
    a, b = SReal.of(a), SReal.of(b)
    if a.is_special or b.is_special:
        if a.is_special and b.is_special:
            return not (a.v == b.v or (a.v != a.v and b.v != b.v))
        return True
    r = a != b
    return r if isinstance(r, bool) else r.e


def zor(terms):
    ts = []
    for t in terms:
        if isinstance(t, bool):
            if t:
                return True
            continue
        ts.append(t)
    if not ts:
        return False
    return z3.Or(*ts) if len(ts) > 1 else ts[0]


def diff_lists(a, b):
    """violation term: the two lists of scalars differ (length or some element)."""
    if len(a) != len(b):
        return True
    return zor(eqv(x, y) for x, y in zip(a, b))


def diff_snap(s1, s2, fields=("x", "fun", "jac", "nfev", "njev", "nit", "sk", "yk")):
    """violation term + list of structural differences between two state snapshots."""
    terms = []
    struct = []
    for f in fields:
        a, b = s1.get(f), s2.get(f)
        if f in ("nfev", "njev", "nit", "message", "success", "status"):
            if a != b:
                struct.append("%s: %r vs %r" % (f, a, b))
            continue
        if f in ("sk", "yk"):
            if a is None or b is None:
                if a is not b:
                    struct.append("%s missing" % f)
                continue
            if a[0] != b[0]:
                struct.append("%s shape %s vs %s" % (f, a[0], b[0]))
                continue
            terms.append(diff_lists(a[1], b[1]))
            continue
        if f == "fun":
            terms.append(eqv(a, b))
            continue
        terms.append(diff_lists(a, b))
    if struct:
        return True, struct
    return zor(terms), struct
