"""C09 — subspace minimisation: real get_freev + subspace_minimization (optionally after the real
get_cauchy_point) vs. the box-truncated Newton point computed with the dense B."""
from __future__ import annotations

from fractions import Fraction

import z3

from symx.core import CTX, PathAbort
from symx.scalar import SReal, INF, NINF
from . import common
from .c08 import ne, zor, proj_grad_nonzero

FUNCS = ["lbfgsb.subspacemin.get_freev", "lbfgsb.subspacemin.subspace_minimization", "lbfgsb.subspacemin.form_k",
         "lbfgsb.subspacemin.form_k_from_za", "lbfgsb.subspacemin.factorize_k", "lbfgsb.cauchy.get_cauchy_point",
         "lbfgsb.bfgsmats.bmv", "lbfgsb.bfgsmats.update_lbfgs_matrices", "lbfgsb.bfgsmats.form_invMfactors"]


def solve_dense(A, b):
    """Solve A d = b, A list of lists of Fractions (SPD), b list of SReal -> list of SReal."""
    k = len(b)
    M = [[Fraction(A[i][j]) for j in range(k)] for i in range(k)]
    B = list(b)
    for c in range(k):
        p = next(r for r in range(c, k) if M[r][c] != 0)
        M[c], M[p] = M[p], M[c]
        B[c], B[p] = B[p], B[c]
        for r in range(c + 1, k):
            f = M[r][c] / M[c][c]
            for j in range(c, k):
                M[r][j] -= f * M[c][j]
            B[r] = B[r] - SReal.of(f) * B[c]
    X = [None] * k
    for i in range(k - 1, -1, -1):
        s = B[i]
        for t in range(i + 1, k):
            s = s - SReal.of(M[i][t]) * X[t]
        X[i] = s / SReal.of(M[i][i])
    return X


def ref_subspace(n, x, g, l, u, xc, B):
    """Box-truncated Newton point on the free subspace at xc (forks through comparisons)."""
    zero = SReal.of(0)
    free = [i for i in range(n) if (xc[i] != l[i]) and (xc[i] != u[i])]
    if not free:
        return list(xc), free, SReal.of(1)
    z = [xc[i] - x[i] for i in range(n)]
    r = [g[i] + sum((SReal.of(B[i][j]) * z[j] for j in range(n)), zero) for i in range(n)]
    BFF = [[B[i][j] for j in free] for i in free]
    dN = solve_dense(BFF, [-r[i] for i in free])
    alpha = SReal.of(1)
    for k, i in enumerate(free):
        d = dN[k]
        if d > 0:
            a = (u[i] - xc[i]) / d
        elif d < 0:
            a = (l[i] - xc[i]) / d
        else:
            continue
        if a < alpha:
            alpha = a
    xbar = list(xc)
    for k, i in enumerate(free):
        xbar[i] = xc[i] + alpha * dN[k]
    return xbar, free, alpha


def qval(n, x, g, B, p):
    zero = SReal.of(0)
    s = [p[i] - x[i] for i in range(n)]
    q = sum((g[i] * s[i] for i in range(n)), zero)
    return q + SReal.of(Fraction(1, 2)) * sum((s[i] * sum((SReal.of(B[i][j]) * s[j] for j in range(n)), zero) for i in range(n)), zero)


def _b(e):
    return e if isinstance(e, bool) else e.e


def path(ctx, params):
    n, m, mode = params["n"], params["m"], params["mode"]
    W = common.world()
    np = W.np
    cauchy = W.load("lbfgsb.cauchy")
    sub = W.load("lbfgsb.subspacemin")
    S, Y = common.memory_instance(n, m, params.get("seed", 0), params.get("which", 0))
    mats, _, _ = common.build_mats(W, n, S, Y)
    B, theta = common.dense_B(n, S, Y)
    x, g, l, u = common.sym_point_and_box(ctx, np, n, params["pattern"])
    xl, gl, ll, ul = list(x.data), list(g.data), list(l.data), list(u.data)
    info = dict(n=n, m=m, mode=mode, pattern=list(params["pattern"]), which=params.get("which", 0))
    zero = SReal.of(0)
    if mode == "pipeline":
        ctx.assume(proj_grad_nonzero(n, xl, gl, ll, ul))
        x_cp, c = cauchy.get_cauchy_point(x, g, l, u, mats, 1, -1, None)
    else:
        # an arbitrary feasible point with an arbitrary active set stands for the Cauchy point
        xs = []
        for i in range(n):
            v = ctx.real("xc%d" % i)
            lo = ll[i].z() if not ll[i].is_special else None
            hi = ul[i].z() if not ul[i].is_special else None
            if lo is not None:
                ctx.assume(v >= lo, check=False)
            if hi is not None:
                ctx.assume(v <= hi, check=False)
            ctx.assume(z3.And(v >= -2 ** 10, v <= 2 ** 10), check=False)
            xs.append(SReal(v))
        x_cp = np.array(xs)
        if m > 0:
            c = mats.W.T @ (x_cp - x)
        else:
            c = np.zeros(1)
    xc = list(x_cp.data)
    try:
        free_vars, Z, A = sub.get_freev(x_cp, l, u, 1, None, -1, None)
        xbar = sub.subspace_minimization(x, x_cp, free_vars, Z, A, c, g, l, u, mats)
    except PathAbort:
        raise
    except Exception as e:
        ctx.check("no_exception", True, info=dict(info, exc=type(e).__name__, msg=str(e)[:200]))
        return dict(cls="exception:" + type(e).__name__)
    xb = list(xbar.data)
    ref, free, alpha = ref_subspace(n, xl, gl, ll, ul, xc, B)
    ctx.check("xbar_equals_truncated_newton_point", zor(ne(xb[i], ref[i]) for i in range(n)), info=info)
    ctx.check("active_variables_kept", zor(ne(xb[i], xc[i]) for i in range(n) if i not in free), info=info)
    feas = []
    for i in range(n):
        feas.append(_b(xb[i] < ll[i]))
        feas.append(_b(xb[i] > ul[i]))
    ctx.check("xbar_in_box", zor(feas), info=info)
    ctx.check("model_not_increased", _b(qval(n, xl, gl, B, xb) > qval(n, xl, gl, B, xc)), info=info)
    if mode == "pipeline":
        gd = sum((gl[i] * (xb[i] - xl[i]) for i in range(n)), zero)
        ctx.check("descent_direction", _b(gd >= 0), info=info)
    ctx._ensure_model()
    out = None
    if ctx.model_valid:
        try:
            out = [v.eval_float(ctx) for v in xb]
        except Exception:
            out = None
    return dict(cls="free=%d" % len(free), out=out)


def real_case(params, witness):
    n, m = params["n"], params["m"]
    S, Y = common.memory_instance(n, m, params.get("seed", 0), params.get("which", 0))
    pat = params["pattern"]
    f = common.fr_to_float
    case = dict(kind="subspace", mode=params["mode"], n=n,
                S=[[float(v) for v in r] for r in S], Y=[[float(v) for v in r] for r in Y],
                x=[f(witness.get("x%d" % i, "0")) for i in range(n)],
                g=[f(witness.get("g%d" % i, "0")) for i in range(n)],
                l=[f(witness["l%d" % i]) if pat[i][0] == "f" else float("-inf") for i in range(n)],
                u=[f(witness["u%d" % i]) if pat[i][1] == "f" else float("inf") for i in range(n)])
    if params["mode"] != "pipeline":
        case["xc"] = [f(witness.get("xc%d" % i, "0")) for i in range(n)]
    return case
