"""C08 — the generalized Cauchy point: real get_cauchy_point vs. an independent dense-B oracle."""
from __future__ import annotations

from fractions import Fraction

import z3

from symx.core import CTX, PathAbort
from symx.scalar import SReal, INF, NINF
from . import common

FUNCS = ["lbfgsb.cauchy.get_cauchy_point", "lbfgsb.bfgsmats.bmv", "lbfgsb.bfgsmats.update_lbfgs_matrices",
         "lbfgsb.bfgsmats.update_X_and_G", "lbfgsb.bfgsmats.form_invMfactors", "lbfgsb.bfgsmats.LBFGSB_MATRICES"]


def ref_gcp(n, x, g, l, u, B):
    """First local minimiser of q along P(x - t g), by the definition, with dense B.

    x, g, l, u: lists of SReal; B: n x n list of Fractions.  Forks through SReal comparisons.
    Returns (xc list, tstar SReal, free list of bools (variable still moving at xc)).
    """
    zero = SReal.of(0)
    t = []
    d = []
    for i in range(n):
        gi = g[i]
        if gi < 0:
            ti = (x[i] - u[i]) / gi
        elif gi > 0:
            ti = (x[i] - l[i]) / gi
        else:
            ti = SReal(INF)
        t.append(ti)
        if gi == 0 or ti == 0:
            d.append(zero)
        else:
            d.append(-gi)
    xc = list(x)
    moving = [bool(d[i] != 0) for i in range(n)]
    tprev = zero
    while True:
        if not any(moving):
            return xc, tprev, moving
        # derivative data on the current segment
        z = [xc[i] - x[i] for i in range(n)]
        r = [g[i] + sum((B[i][j] * z[j] for j in range(n)), zero) for i in range(n)]
        f1 = sum((d[i] * r[i] for i in range(n)), zero)
        f2 = sum((d[i] * sum((B[i][j] * d[j] for j in range(n)), zero) for i in range(n)), zero)
        if f1 >= 0:
            return xc, tprev, moving
        dtmin = -f1 / f2
        # next breakpoint among moving variables
        tnext = None
        for i in range(n):
            if moving[i]:
                tnext = t[i] if tnext is None else (t[i] if t[i] < tnext else tnext)
        dt = tnext - tprev
        if dtmin < dt:
            return [xc[i] + dtmin * d[i] for i in range(n)], tprev + dtmin, moving
        # walk to the breakpoint, pin every variable whose breakpoint is reached
        newxc = []
        for i in range(n):
            if moving[i] and t[i] == tnext:
                newxc.append(u[i] if d[i] > 0 else l[i])
                moving[i] = False
                d[i] = zero
            elif moving[i]:
                newxc.append(xc[i] + dt * d[i])
            else:
                newxc.append(xc[i])
        xc = newxc
        tprev = tnext


def proj_grad_nonzero(n, x, g, l, u):
    terms = []
    for i in range(n):
        gi, xi = g[i].z(), x[i].z()
        c = []
        if not u[i].is_special:
            c.append(z3.And(gi < 0, xi < u[i].z()))
        else:
            c.append(gi < 0)
        if not l[i].is_special:
            c.append(z3.And(gi > 0, xi > l[i].z()))
        else:
            c.append(gi > 0)
        terms.append(z3.Or(*c))
    return z3.Or(*terms)


def ne(a, b):
    """z3 violation term: SReal a differs from SReal b (specials compared structurally)."""
    if a.is_special or b.is_special:
        if a.is_special and b.is_special:
            return not (a.v == b.v)
        return True
    r = (a != b)
    return r if isinstance(r, bool) else r.e


def far(a, b, rel=Fraction(1, 10 ** 6)):
    """|a-b| > rel*(1+|b|) as a z3 term (robust-witness variant of ne)."""
    if a.is_special or b.is_special:
        return ne(a, b)
    d = a.z() - b.z()
    ab = z3.If(b.z() >= 0, b.z(), -b.z())
    m = z3.RealVal(str(rel)) * (1 + ab)
    return z3.Or(d > m, -d > m)


def zor(terms):
    ts = [t for t in terms if not (isinstance(t, bool) and not t)]
    if any(isinstance(t, bool) and t for t in ts):
        return True
    if not ts:
        return False
    return z3.Or(*ts)


def path(ctx, params):
    n, m = params["n"], params["m"]
    W = common.world()
    np = W.np
    cauchy = W.load("lbfgsb.cauchy")
    S, Y = common.memory_instance(n, m, params.get("seed", 0), params.get("which", 0))
    mats, _, _ = common.build_mats(W, n, S, Y)
    B, theta = common.dense_B(n, S, Y)
    x, g, l, u = common.sym_point_and_box(ctx, np, n, params["pattern"])
    ctx.assume(proj_grad_nonzero(n, x.data, g.data, l.data, u.data))
    x_in = [v for v in x.data]
    try:
        x_cp, c = cauchy.get_cauchy_point(x, g, l, u, mats, params.get("iter", 1), -1, None)
    except PathAbort:
        raise
    except Exception as e:   # an exception escaping the kernel is itself a result
        ctx.check("no_exception", True, info=dict(exc=type(e).__name__, msg=str(e)[:200]))
        return dict(cls="exception:" + type(e).__name__)
    xc = list(x_cp.data)
    # ---- oracle ---------------------------------------------------------
    ref, tstar, moving = ref_gcp(n, x_in, list(g.data), list(l.data), list(u.data), B)
    info = dict(n=n, m=m, pattern=list(params["pattern"]), which=params.get("which", 0))
    ctx.check("gcp_equals_first_local_minimiser", zor(ne(xc[i], ref[i]) for i in range(n)), info=info)
    # feasibility
    feas = []
    for i in range(n):
        r1 = xc[i] < l.data[i]
        r2 = xc[i] > u.data[i]
        feas.append(r1 if isinstance(r1, bool) else r1.e)
        feas.append(r2 if isinstance(r2, bool) else r2.e)
    ctx.check("gcp_feasible", zor(feas), info=info)
    # model value not larger than at x:  q(s) = g.s + 1/2 s'Bs <= 0
    s = [xc[i] - x_in[i] for i in range(n)]
    zero = SReal.of(0)
    q = sum((g.data[i] * s[i] for i in range(n)), zero)
    q = q + SReal.of(Fraction(1, 2)) * sum((s[i] * sum((B[i][j] * s[j] for j in range(n)), zero) for i in range(n)), zero)
    rq = q > 0
    ctx.check("gcp_model_not_larger", rq if isinstance(rq, bool) else rq.e, info=info)
    # auxiliary vector c = W'(xcp - x) when some variable is still free
    if m > 0 and any(moving):
        Wm = mats.W
        cv = []
        for j in range(2 * m):
            e = sum((Wm[i, j] * s[i] for i in range(n)), zero)
            cv.append(ne(c.data[j], e))
        ctx.check("c_is_projection_on_memory_basis", zor(cv), info=info)
    # values under the path witness, for translator validation against the real function
    ctx._ensure_model()
    out = None
    if ctx.model_valid:
        try:
            out = [v.eval_float(ctx) for v in xc]
        except Exception:
            out = None
    return dict(cls="free=%d" % sum(1 for b in moving if b), out=out)


def real_case(params, witness):
    """Inputs of one witness for replay/realrun.py."""
    n, m = params["n"], params["m"]
    S, Y = common.memory_instance(n, m, params.get("seed", 0), params.get("which", 0))
    pat = params["pattern"]
    f = common.fr_to_float
    return dict(kind="cauchy", n=n,
                S=[[float(v) for v in r] for r in S], Y=[[float(v) for v in r] for r in Y],
                x=[f(witness.get("x%d" % i, "0")) for i in range(n)],
                g=[f(witness.get("g%d" % i, "0")) for i in range(n)],
                l=[f(witness["l%d" % i]) if pat[i][0] == "f" else float("-inf") for i in range(n)],
                u=[f(witness["u%d" % i]) if pat[i][1] == "f" else float("inf") for i in range(n)],
                iter=params.get("iter", 1))
