"""Single symbolic run of minimize_lbfgsb (fresh start or arbitrary checkpoint) with the obligations of
C03 (monotone), C04 (truthful termination, budgets), C05 (coherence, counters), C18 (pair provenance)."""
from __future__ import annotations

from fractions import Fraction

import z3

from symx.core import CTX, PathAbort, Unsupported
from symx.scalar import SReal, SBool, INF, NINF, ITE_MODE
from symx.arr import SArr
from . import common, orch
from .orch import Problem, Run, ST, eqv, zor, diff_lists, _b

FUNCS = ["lbfgsb.main.minimize_lbfgsb", "lbfgsb.main.initialize_X_and_G", "lbfgsb.main.is_f0_min_change_reached",
         "lbfgsb.main.is_f0_target_reached", "lbfgsb.base.get_bounds", "lbfgsb.base.clip2bounds", "lbfgsb.base.projgr",
         "lbfgsb.base.display_results", "lbfgsb.scalar_function.ScalarFunction", "lbfgsb.scalar_function.prepare_scalar_function",
         "lbfgsb.bfgsmats.update_lbfgs_matrices", "lbfgsb.bfgsmats.update_X_and_G", "lbfgsb.bfgsmats.is_update_X_and_G"]

MESSAGES = {
    "PGTOL": "CONVERGENCE: NORM_OF_PROJECTED_GRADIENT_<=_PGTOL",
    "FTOL": "CONVERGENCE: REL_REDUCTION_OF_F_<=_FTOL",
    "TARGET": "CONVERGENCE: F_<=_TARGET",
    "ITER": "STOP: TOTAL NO. of ITERATIONS REACHED LIMIT",
    "EVAL": "STOP: TOTAL NO. of f AND g EVALUATIONS EXCEEDS LIMIT",
    "CALLBACK": "STOP: USER CALLBACK",
    "ABNORMAL": "ABNORMAL_TERMINATION_IN_LNSRCH",
}


def projgr_term(x, g, lb, ub):
    """max_i |clip(x_i - g_i, l_i, u_i) - x_i| as a list of per-component SReal (ITE mode)."""
    out = []
    for i in range(len(x)):
        v = x[i] - g[i]
        if not lb[i].is_special:
            v = SReal.sym(z3.If(v.z() < lb[i].z(), lb[i].z(), v.z()))
        if not ub[i].is_special:
            v = SReal.sym(z3.If(v.z() > ub[i].z(), ub[i].z(), v.z()))
        dlt = v - x[i]
        out.append(SReal.sym(z3.If(dlt.z() >= 0, dlt.z(), -dlt.z())))
    return out


def make_checkpoint(ctx, W, prob, params):
    """An arbitrary coherent checkpoint: x = x0, symbolic fun/jac, counters, m genuine pairs."""
    np = W.np
    n = prob.n
    m = params.get("ck_pairs", 0)
    nit0, nfev0 = params.get("ck_nit", 1), params.get("ck_nfev", 2)
    njev0 = params.get("ck_njev", nfev0)
    x = prob.x0_array()
    fun = SReal(ctx.real("ck_fun"))
    jac = [SReal(ctx.real("ck_jac%d" % i)) for i in range(n)]
    # coherence: the checkpoint's fun/jac are the objective's at its x
    prob.f.table.append((list(prob.x0), [fun]))
    prob.g.table.append((list(prob.x0), list(jac)))
    sk, yk = [], []
    pts = [list(prob.x0)]
    grads = [list(jac)]
    for k in range(m):
        s = [SReal(ctx.real("ck_s%d_%d" % (k, i))) for i in range(n)]
        y = [SReal(ctx.real("ck_y%d_%d" % (k, i))) for i in range(n)]
        sy = sum((a * b for a, b in zip(s, y)), SReal.of(0))
        yy = sum((a * a for a in y), SReal.of(0))
        ctx.assume(_b(sy > SReal.of(Fraction(1, 1000)) * yy + SReal.of(Fraction(1, 1000))), check=False)
        sk.append(s)
        yk.append(y)
    # rows oldest first: walk back from x to reconstruct the genuine history
    for k in range(m - 1, -1, -1):
        pts.insert(0, [a - b for a, b in zip(pts[0], sk[k])])
        grads.insert(0, [a - b for a, b in zip(grads[0], yk[k])])
    for p, g in zip(pts[:-1], grads[:-1]):
        prob.g.table.append((p, g))
    hi = W.sp.optimize.LbfgsInvHessProduct(np.array(sk).reshape(m, n) if m else np.zeros((0, n)),
                                           np.array(yk).reshape(m, n) if m else np.zeros((0, n)))
    if params.get("ck_abnormal"):
        # the earlier run ended on an abnormal line-search termination (success False): still a valid checkpoint
        ck = W.sp.optimize.OptimizeResult(fun=fun, jac=np.array(jac), nfev=nfev0, njev=njev0, nit=nit0, status=2,
                                          message=MESSAGES["ABNORMAL"], x=x, success=False, hess_inv=hi)
    else:
        ck = W.sp.optimize.OptimizeResult(fun=fun, jac=np.array(jac), nfev=nfev0, njev=njev0, nit=nit0, status=1,
                                          message=MESSAGES["ITER"], x=x, success=True, hess_inv=hi)
    return ck, dict(points=pts, grads=grads, fun=fun, jac=jac, nit=nit0, nfev=nfev0, njev=njev0)


def build_cfg(ctx, W, prob, params, run):
    cfg = dict(maxiter=params["maxiter"], maxfun=params["maxfun"], maxls=params.get("maxls", 2), maxcor=params.get("maxcor", 2))
    sym = {}
    if params.get("ftol") == "sym":
        v = ctx.real("ftol")
        ctx.assume(v >= 0, check=False)
        cfg["ftol"] = SReal(v)
    else:
        cfg["ftol"] = params.get("ftol", 0.0)
    sym["ftol"] = SReal.of(cfg["ftol"])
    gt = ctx.real("gtol")
    ctx.assume(gt >= 0, check=False)
    sym["gtol"] = SReal(gt)
    if params.get("gtol_kind", "float") == "callable":
        def gtol():
            run._fault("gtol", run.gtol_calls)
            run.gtol_calls += 1
            return SReal(gt)
        cfg["gtol"] = gtol
    else:
        cfg["gtol"] = SReal(gt)
    fk = params.get("ftarget_kind", "none")
    sym["ftarget"] = None
    if fk != "none":
        ft = ctx.real("ftarget")
        sym["ftarget"] = SReal(ft)
        if fk == "callable":
            def ftarget():
                run._fault("ftarget", run.ftarget_calls)
                run.ftarget_calls += 1
                return SReal(ft)
            cfg["ftarget"] = ftarget
        else:
            cfg["ftarget"] = SReal(ft)
    if params.get("callback_kind"):
        cfg["callback_kind"] = params["callback_kind"]
    if params.get("scaler"):
        sv = ctx.real("scale")
        ctx.assume(z3.And(sv >= z3.RealVal("1/1000"), sv <= 1000), check=False)
        sym["scale"] = SReal(sv)

        def scaler(x, grad, lb, ub):
            run._fault("scaler", len(run.scaler_calls))
            run.scaler_calls.append(dict(x=list(x.data), grad=list(grad.data), lb=list(lb.data), ub=list(ub.data)))
            return SReal(sv)
        cfg["gradient_scaler"] = scaler
    else:
        sym["scale"] = SReal.of(1)
    jm = params.get("jac_mode", "callable")
    if jm != "callable":
        cfg["jac"] = None if jm == "none" else jm
    return cfg, sym


def path(ctx, params):
    ITE_MODE[0] = True
    try:
        return _path(ctx, params)
    finally:
        ITE_MODE[0] = False


def _path(ctx, params):
    W = common.world("orch")
    np = W.np
    main = orch.install(W)
    ST.reset()
    ST.ls_mode = params.get("ls_mode", "contract")
    ST.ls_tmax = params.get("ls_tmax", 2)
    orch.use_real_line_search(W, params.get("ls_mode") == "real")
    if params.get("ls_mode") == "real":
        from .c11 import install_cut
        install_cut(W, ctx)
    n = params.get("n", 1)
    prob = Problem(ctx, W, n, params.get("pattern", ("ff",) * n))
    run = Run(prob)
    run.jac_buffer = bool(params.get("jac_buffer"))
    run.mutate_args = bool(params.get("mutate_args"))
    cfg, sym = build_cfg(ctx, W, prob, params, run)
    ck_info = None
    if params.get("checkpoint"):
        ck, ck_info = make_checkpoint(ctx, W, prob, params)
        cfg["checkpoint"] = ck
        # the way a user restarts: x0 is the very array of the result it restarts from
        cfg["x0"] = ck["x"]
        ck_before = orch.snapshot_state(ck)
        ck_report = dict(message=ck.get("message"), success=ck.get("success"), status=ck.get("status"))
    if params.get("x0_dtype") == "float32" and "x0" not in cfg:
        # a single-precision start vector (feasible; its entries are taken to be representable)
        a = prob.x0_array()
        cfg["x0"] = SArr(a.shape, list(a.data), "float32")
    run.execute(cfg)
    groups = params.get("groups", ["C03", "C04", "C05", "C18"])
    info = {k: v for k, v in params.items() if k not in ("groups",)}
    if run.exc is not None:
        e = run.exc
        import traceback
        tb = "".join(traceback.format_exception(type(e), e, e.__traceback__))[-700:]
        ctx.check("no_exception", True, info=dict(info, exc=type(e).__name__, msg=str(e)[:200], tb=tb))
        return dict(cls="exception:" + type(e).__name__)
    res = run.result
    msg = res.get("message")
    key = next((k for k, v in MESSAGES.items() if v == msg), None)
    scale = sym["scale"]
    n0 = ck_info["nfev"] if ck_info else 1
    nit0 = ck_info["nit"] if ck_info else 0
    njev0 = ck_info["njev"] if ck_info else 0
    nfev_base = ck_info["nfev"] if ck_info else 0
    callable_grad = params.get("jac_mode", "callable") == "callable"
    early_return_ck = ck_info is not None and res is cfg.get("checkpoint")
    x = list(res["x"].data)
    jac = list(res["jac"].data)
    fun = SReal.of(res["fun"])
    lb, ub = prob.lb, prob.ub
    # ------------------------------------------------------------------ C04
    if "C04" in groups:
        ctx.check("C04.message_documented", key is None, info=dict(info, message=msg))
        if key == "PGTOL":
            pg = projgr_term(x, jac, lb, ub)
            ctx.check("C04.pgtol_message_true", zor(_b(p > sym["gtol"]) for p in pg), info=info)
        if key == "TARGET":
            if sym["ftarget"] is None:
                ctx.check("C04.target_message_true", True, info=info)
            else:
                ctx.check("C04.target_message_true", _b(fun / scale > sym["ftarget"]), info=info)
        if key == "ITER":
            ctx.check("C04.iter_message_true", res["nit"] < params["maxiter"], info=dict(info, nit=res["nit"]))
        if key == "EVAL":
            ctx.check("C04.eval_message_true", res["nfev"] < params["maxfun"], info=dict(info, nfev=res["nfev"]))
        if key == "CALLBACK":
            ctx.check("C04.callback_message_true", not any(c.get("ret") is True or params.get("callback_kind") == "true" for c in run.cb), info=info)
        ctx.check("C04.success_false_iff_abnormal", bool(res["success"]) == (key == "ABNORMAL") if key else False, info=dict(info, message=msg, success=res["success"]))
        ctx.check("C04.nit_within_budget", res["nit"] > max(params["maxiter"], nit0), info=dict(info, nit=res["nit"]))
        if callable_grad:
            ctx.check("C04.nfev_within_budget", res["nfev"] > max(params["maxfun"], n0) + 1, info=dict(info, nfev=res["nfev"], n0=n0))
        if params.get("ftarget_kind") == "callable":
            ctx.check("C04.ftarget_called_once", run.ftarget_calls != 1, info=dict(info, calls=run.ftarget_calls))
        if params.get("gtol_kind") == "callable":
            ctx.check("C04.gtol_called_once", run.gtol_calls != 1, info=dict(info, calls=run.gtol_calls))
    # ------------------------------------------------------------------ C05
    if ("C05" in groups or "C04" in groups) and ck_info is not None:
        # a chain of restarts: the result the run was started from still describes its own point afterwards (its
        # termination report included: it is the report of the EARLIER run)
        v, struct = orch.diff_snap(ck_before, orch.snapshot_state(cfg["checkpoint"]), fields=("x", "fun", "jac", "nfev", "njev", "nit", "sk", "yk"))
        ckn = cfg["checkpoint"]
        if ckn.get("message") != ck_report["message"] or ckn.get("success") != ck_report["success"] or ckn.get("status") != ck_report["status"]:
            v, struct = True, list(struct) + ["termination report of the checkpoint changed: %r -> %r" % (ck_report, dict(message=ckn.get("message"), success=ckn.get("success"), status=ckn.get("status")))]
        ctx.check("C05.earlier_result_of_the_chain_untouched", v, info=dict(info, structural=struct))
    if "C05" in groups:
        any_grad = (len(run.gcalls) > 0 or ck_info is not None) if callable_grad else (len(run.fd_calls) > 0 or ck_info is not None)
        if any_grad:
            sc = scale if not early_return_ck else SReal.of(1)
            # the oracle's value at exactly the returned x (Ackermann-consistent with every logged call;
            # an x that was never evaluated gets an unconstrained value, so the obligation fails)
            fv = prob.f(x)
            ctx.check("C05.fun_belongs_to_x", eqv(fun, fv[0] * sc), info=info)
            if callable_grad:
                gv = prob.g(x)
                ctx.check("C05.jac_belongs_to_x", diff_lists(jac, [g * sc for g in gv]), info=info)
        for k, c in enumerate(run.cb):
            sx = c["snap"]["x"]
            fvk = prob.f(sx)
            ctx.check("C05.callback_fun_belongs_to_x", eqv(c["snap"]["fun"], fvk[0] * scale), info=dict(info, k=k))
            if callable_grad:
                gvk = prob.g(sx)
                ctx.check("C05.callback_jac_belongs_to_x", diff_lists(c["snap"]["jac"], [g * scale for g in gvk]), info=dict(info, k=k))
        ctx.check("C05.nfev_equals_calls", res["nfev"] != nfev_base + len(run.fcalls), info=dict(info, nfev=res["nfev"], calls=len(run.fcalls), base=nfev_base))
        ngrad = len(run.gcalls) if callable_grad else len(run.fd_calls)
        ctx.check("C05.njev_equals_calls", res["njev"] != njev0 + ngrad, info=dict(info, njev=res["njev"], calls=ngrad, base=njev0))
    # ------------------------------------------------------------------ C02 (run level, exact reals)
    if "C02" in groups:
        def out_of_box(pt):
            t = []
            for i in range(n):
                if not lb[i].is_special:
                    t.append(_b(SReal.of(pt[i]) < lb[i]))
                if not ub[i].is_special:
                    t.append(_b(SReal.of(pt[i]) > ub[i]))
            return t
        terms = []
        for pt, _v in run.fcalls:
            terms += out_of_box(pt)
        for pt, _v in run.gcalls:
            terms += out_of_box(pt)
        ctx.check("C02.evaluation_points_in_box", zor(terms), info=dict(info, calls=len(run.fcalls)))
        terms = out_of_box(x)
        for c in run.cb:
            terms += out_of_box(c["snap"]["x"]) + out_of_box(c["xk_snap"])
        ctx.check("C02.reported_points_in_box", zor(terms), info=info)
        fixed = []
        for i in range(n):
            if not lb[i].is_special and not ub[i].is_special:
                eq = lb[i] == ub[i]
                if eq is False:
                    continue
                pts = [x] + [c["snap"]["x"] for c in run.cb] + [p for p, _ in run.fcalls]
                for pt in pts:
                    mv = eqv(pt[i], lb[i])
                    if mv is False:
                        continue
                    fixed.append(z3.And(orch._b(eq) if not isinstance(eq, bool) else z3.BoolVal(eq), mv if not isinstance(mv, bool) else z3.BoolVal(mv)))
        ctx.check("C02.fixed_components_never_move", zor(fixed), info=info)
    # ------------------------------------------------------------------ C16 (finite-difference plumbing at run level)
    if "C16" in groups and not callable_grad:
        mode = params.get("jac_mode")
        # the finite-difference modes work on every box, degenerate sides (lb == ub) included: a documented
        # termination reason and a finite gradient
        nan_jac = any(isinstance(v, SReal) and v.is_special for v in jac)
        ctx.check("C16.run_terminates_normally_on_every_box", key is None or nan_jac, info=dict(info, message=msg, nan_in_jac=nan_jac))
        ctx.check("C16.nfev_counts_stencil_evaluations", res["nfev"] != nfev_base + len(run.fcalls), info=dict(info, nfev=res["nfev"], calls=len(run.fcalls)))
        bad = []
        terms = []
        for rec in run.fd_calls:
            exp_method = "2-point" if mode == "none" else mode
            if rec["method"] != exp_method:
                bad.append("method %r instead of %r" % (rec["method"], exp_method))
            b_lo, b_hi = rec["bounds"]
            terms.append(diff_lists(list(b_lo.data), lb))
            terms.append(diff_lists(list(b_hi.data), ub))
            # the base value handed to the differencing routine is the objective at that very point (unscaled)
            terms.append(eqv(rec["f0"], prob.f(rec["x0"])[0]))
            if mode == "none" and rec["abs_step"] is None:
                bad.append("no absolute step for jac=None")
            if mode != "none" and rec["abs_step"] is not None:
                bad.append("absolute step given in relative-step mode")
        ctx.check("C16.differencing_called_with_problem_bounds_and_current_value", True if bad else zor(terms), info=dict(info, problems=bad))
    # ------------------------------------------------------------------ C03
    if "C03" in groups and not params.get("scaler"):
        seq = []
        if ck_info is None:
            if run.fcalls:
                seq.append(("x0", run.fcalls[0][1]))
        else:
            seq.append(("checkpoint", ck_info["fun"]))
        for k, c in enumerate(run.cb):
            seq.append(("callback%d" % k, prob.f(c["snap"]["x"])[0]))
        seq.append(("result", prob.f(x)[0]))
        up = []
        for (na, a), (nb, b) in zip(seq, seq[1:]):
            up.append(_b(b > a))
        ctx.check("C03.objective_never_increases", zor(up), info=dict(info, sequence=[s[0] for s in seq]))
        # the values the solver REPORTS (state.fun of the callbacks, result.fun) do not increase either
        rep = [seq[0][1]] if seq and (ck_info is None and run.fcalls or ck_info is not None) else []
        rep += [SReal.of(c["snap"]["fun"]) for c in run.cb] + [fun]
        ctx.check("C03.reported_fun_never_increases", zor(_b(b > a) for a, b in zip(rep, rep[1:])), info=info)
        # a failed line search leaves the iterate where it was
        moved = []
        for i, c in enumerate(run.ls_calls):
            if c["ret"] is None:
                nxt = run.ls_calls[i + 1]["x0"] if i + 1 < len(run.ls_calls) else x
                moved.append(diff_lists(c["x0"], nxt))
        if moved:
            ctx.check("C03.failed_line_search_keeps_iterate", zor(moved), info=info)
    # ------------------------------------------------------------------ C18 (provenance)
    if "C18" in groups and callable_grad:
        hi = res["hess_inv"]
        npairs = hi.sk.shape[0]
        ctx.check("C18.at_most_maxcor_pairs", npairs > params.get("maxcor", 2), info=dict(info, pairs=npairs))
        viol, notes = pair_provenance(prob, run, ck_info, res, scale)
        ctx.check("C18.pairs_are_differences_of_visited_iterates", viol, info=dict(info, problems=notes))
        pos = []
        for j in range(npairs):
            sy = sum((hi.sk[j, i] * hi.yk[j, i] for i in range(n)), SReal.of(0))
            pos.append(_b(sy <= 0))
        ctx.check("C18.pairs_have_positive_curvature", zor(pos), info=info)
    ncb = len(run.cb)
    return dict(cls="%s/nit=%s/nfev=%s/cb=%d" % (key or msg, res["nit"], res["nfev"], ncb))


def iterates_of(prob, run, ck_info):
    """Chronological list of accepted iterates (points) of the run, including the history before a restart."""
    pts = [list(p) for p in ck_info["points"]] if ck_info else []
    if not ck_info:
        start = run.fcalls[0][0] if run.fcalls else None
        if start is not None:
            pts.append(start)
    for c in run.ls_calls:
        if c["ret"] is not None:
            pts.append([a + c["ret"] * b for a, b in zip(c["x0"], c["d"])])
    return pts


def same_point(p, q):
    return all((a == b) is True for a, b in zip(p, q))


def pair_provenance(prob, run, ck_info, res, scale):
    """violation term: NOT exists a chronological chain of visited iterates i_0 < ... < i_m with
    sk[j] = X[i_{j+1}] - X[i_j] and yk[j] = (g(X[i_{j+1}]) - g(X[i_j])) * scale, g = the oracle's gradient."""
    hi = res["hess_inv"]
    m, n = hi.sk.shape
    if m == 0:
        return False, []
    its = iterates_of(prob, run, ck_info)
    gv = [prob.g(p) for p in its]
    memo = {}

    def same(p, q):
        t = diff_lists(p, q)
        return z3.BoolVal(not t) if isinstance(t, bool) else z3.Not(t)

    def ok(a, j):
        if j < 0:
            return z3.BoolVal(True)
        if (a, j) in memo:
            return memo[(a, j)]
        alts = []
        for k in range(a):
            sdiff = [its[a][i] - its[k][i] for i in range(n)]
            ydiff = [(gv[a][i] - gv[k][i]) * scale for i in range(n)]
            c = z3.And(same([hi.sk[j, i] for i in range(n)], sdiff), same([hi.yk[j, i] for i in range(n)], ydiff), ok(k, j - 1))
            alts.append(c)
        r = z3.Or(*alts) if alts else z3.BoolVal(False)
        memo[(a, j)] = r
        return r
    good = z3.Or(*[ok(a, m - 1) for a in range(len(its))]) if its else z3.BoolVal(False)
    return z3.simplify(z3.Not(good)), []


def _z(t):
    return z3.BoolVal(t) if isinstance(t, bool) else t
