"""C15 (and the plumbing half of C16) — the real ScalarFunction / prepare_scalar_function under arbitrary
call histories: never a stale value, every evaluation counted once, finite-difference options passed through."""
from __future__ import annotations

from fractions import Fraction

import z3

from symx.core import CTX, PathAbort, Unsupported
from symx.scalar import SReal, INF, NINF, NAN, ITE_MODE
from symx.oracle import UF, _eq_point
from . import common
from .orch import eqv, zor, diff_lists, _b

FUNCS = ["lbfgsb.scalar_function.ScalarFunction", "lbfgsb.scalar_function.prepare_scalar_function"]

OPS = ["fun", "grad", "fun_and_grad", "mutate", "rescale", "mutate_returned"]


def path(ctx, params):
    ITE_MODE[0] = True
    try:
        return _path(ctx, params)
    finally:
        ITE_MODE[0] = False


def _path(ctx, params):
    n, L, mode = params.get("n", 1), params["L"], params.get("jac", "callable")
    W = common.world("c15")
    np = W.np
    sfm = W.load("lbfgsb.scalar_function")
    f, g, fd, fdw = UF("f", 1), UF("g", n), UF("fdg", n), UF("fdw", 1)
    fcalls, gcalls, fdcalls, requests = [], [], [], []
    in_stencil = [False]

    def fun(x, *a):
        pt = list(x.data)
        v = f(pt)[0]
        fcalls.append(dict(pt=pt, at=len(requests), stencil=in_stencil[0]))
        return v

    def jac(x, *a):
        pt = list(x.data)
        v = g(pt)
        gcalls.append(dict(pt=pt))
        return np.array(list(v))
    lbv = [SReal(ctx.real("lb%d" % i)) for i in range(n)]
    ubv = [SReal(ctx.real("ub%d" % i)) for i in range(n)]
    for a, b in zip(lbv, ubv):
        ctx.assume(_b(a <= b), check=False)
    lb, ub = np.array(lbv), np.array(ubv)
    eps = SReal(ctx.real("eps"))
    rel = SReal(ctx.real("rel_step")) if params.get("rel", "sym") == "sym" else None

    def approx_derivative(fun_w, x0, method="3-point", rel_step=None, abs_step=None, f0=None, bounds=(-INF, INF), **kw):
        x0 = np.asarray(x0)
        rec = dict(method=method, rel_step=rel_step, abs_step=abs_step, f0=f0, bounds=bounds, x0=list(x0.data), extra=sorted(kw))
        fdcalls.append(rec)
        per = 2 if method == "3-point" else 1
        # SciPy on a degenerate side (lb_i == ub_i): zero step, the "stencil" point is x0 and the real-valued schemes
        # return nan = 0/0 for that component (validated on the real SciPy by replay/real_runs.py:fd_modes)
        bl, bu = bounds
        degenerate = [bool(np.asarray(bl).data[i] == np.asarray(bu).data[i]) for i in range(n)] if np.asarray(bl).ndim else [False] * n
        for i in range(n):
            for s in range(per):
                h = SReal(CTX.fresh("fdh"))
                if degenerate[i]:
                    h = SReal.of(0)
                else:
                    CTX.assume(h.z() != 0, check=False, contract="approx_derivative")
                p = list(x0.data)
                p[i] = p[i] + h
                in_stencil[0] = True
                try:
                    fun_w(np.array(p))
                finally:
                    in_stencil[0] = False
        base = list(fd(list(x0.data)))
        if f0 is not None and method != "cs":
            # a one-sided quotient depends on the base value it is given: FD(x0) + (f(x0) - f0) w(x0), w > 0
            w = fdw(list(x0.data))[0]
            CTX.assume(w.z() > 0, check=False)
            corr = (f(list(x0.data))[0] - SReal.of(f0)) * w
            base = [b + corr for b in base]
        if method != "cs":
            base = [SReal(NAN) if degenerate[i] else base[i] for i in range(n)]
        return np.array(base)
    sfm.approx_derivative = approx_derivative
    x0 = np.array([SReal(ctx.real("x0_%d" % i)) for i in range(n)])
    kw = dict(jac=jac if mode == "callable" else (None if mode == "none" else mode), args=(), bounds=(lb, ub), epsilon=eps, finite_diff_rel_step=rel)
    info = dict(params)
    try:
        sf = sfm.prepare_scalar_function(fun, x0, **kw)
    except (PathAbort, Unsupported):
        raise
    except Exception as e:
        ctx.check("C15.no_exception", True, info=dict(info, exc=type(e).__name__, msg=str(e)[:200]))
        return dict(cls="exception")
    sf._lowest_f = SReal(NINF)     # bookkeeping-only branch (never read), see DESIGN 2
    scale = SReal.of(1)
    # the array given to the constructor counts as 'the array passed last': the caller may ask at that very array and may
    # overwrite it afterwards (the wrapper must have kept a copy of it too)
    last_arr = x0 if params.get("x0_alias", True) else None
    last_grad = None
    trace = []
    for step in range(L):
        op = OPS[ctx.choose_int(0, len(OPS) - 1, "op%d" % step)]
        if op == "mutate":
            if last_arr is None:
                raise PathAbort("nothing to mutate yet")
            # the caller overwrites the array it passed last (the wrapper must have kept a copy)
            for i in range(n):
                last_arr[i] = SReal(ctx.real("m%d_%d" % (step, i)))
            trace.append("mutate")
            continue
        if op == "mutate_returned":
            # the caller overwrites, in place, the gradient array it got back last (the wrapper must not serve it again)
            if last_grad is None:
                raise PathAbort("no gradient returned yet")
            for i in range(n):
                last_grad[i] = SReal(ctx.real("r%d_%d" % (step, i)))
            trace.append("mutate_returned")
            continue
        if op == "rescale":
            scale = SReal(ctx.real("s%d" % step))
            ctx.assume(z3.And(_b(scale >= Fraction(1, 1000)), _b(scale <= 1000)), check=False)
            sf.scaling_factor = scale
            trace.append("rescale")
            continue
        # a request at a point: a new array, or the very array passed last (possibly mutated since)
        reuse = last_arr is not None and ctx.choose("reuse%d" % step)
        if reuse:
            arr = last_arr
        else:
            arr = np.array([SReal(ctx.real("p%d_%d" % (step, i))) for i in range(n)])
        pt = list(arr.data)
        requests.append(pt)
        nf0, ng0 = len(fcalls), (len(gcalls) if mode == "callable" else len(fdcalls))
        try:
            if op == "fun":
                val = sf.fun(arr)
                vf, vg = val, None
            elif op == "grad":
                vg = sf.grad(arr)
                vf = None
            else:
                vf, vg = sf.fun_and_grad(arr)
        except (PathAbort, Unsupported):
            raise
        except Exception as e:
            ctx.check("C15.no_exception", True, info=dict(info, step=step, op=op, exc=type(e).__name__, msg=str(e)[:200]))
            return dict(cls="exception")
        last_arr = arr
        if vg is not None:
            last_grad = vg
        trace.append(op + ("*" if reuse else ""))
        sinfo = dict(info, step=step, trace=list(trace))
        if vf is not None:
            ctx.check("C15.value_is_fresh", eqv(vf, f(pt)[0] * scale), info=sinfo)
        if vg is not None:
            ref = g(pt) if mode == "callable" else fd(pt)
            got, want = list(vg.data), [r * scale for r in ref]
            if mode != "callable":
                # a component with lb == ub has no difference quotient: any finite number will do there
                keep = [i for i in range(n) if not bool(lbv[i] == ubv[i])]
                nan_fixed = any(got[i].is_special for i in range(n) if i not in keep)
                ctx.check("C15.gradient_is_finite_on_degenerate_sides", nan_fixed, info=sinfo)
                got, want = [got[i] for i in keep], [want[i] for i in keep]
            ctx.check("C15.gradient_is_fresh", diff_lists(got, want) if got else False, info=sinfo)
        ngr = len(gcalls) if mode == "callable" else len(fdcalls)
        ctx.check("C15.nfev_counts_objective_calls", sf.nfev != len(fcalls), info=dict(sinfo, nfev=sf.nfev, calls=len(fcalls)))
        ctx.check("C15.ngev_counts_gradient_computations", sf.ngev != ngr, info=dict(sinfo, ngev=sf.ngev, calls=ngr))
        if mode != "callable":
            for rec in fdcalls[ng0:]:
                exp_method = "2-point" if mode == "none" else mode
                bad = []
                if rec["method"] != exp_method:
                    bad.append("method %r" % (rec["method"],))
                if mode == "none":
                    if rec["abs_step"] is None or eqv(rec["abs_step"], eps) is not False:
                        bad.append("abs_step is not eps")
                else:
                    if rec["abs_step"] is not None:
                        bad.append("abs_step given in relative-step mode")
                    if rel is None:
                        if rec["rel_step"] is not None:
                            bad.append("a rel_step appeared although none was given")
                    elif rec["rel_step"] is None or eqv(rec["rel_step"], rel) is not False:
                        bad.append("rel_step not passed through")
                b = rec["bounds"]
                if not (isinstance(b, tuple) and len(b) == 2 and b[0] is lb and b[1] is ub):
                    bad.append("bounds are not the problem's (lb, ub)")
                ctx.check("C16.finite_difference_options_passed_through", bool(bad), info=dict(sinfo, problems=bad))
                ctx.check("C16.f0_given_to_differencing_is_value_at_x", zor([eqv(rec["f0"], f(rec["x0"])[0]), diff_lists(rec["x0"], pt)]), info=sinfo)
    # no re-evaluation of the objective at the point it was last evaluated at
    terms = []
    # (stencil evaluations made by the differencing routine are not 'requests': only evaluations at requested points count)
    own = [c for c in fcalls if not c["stencil"]]
    for a, b in zip(own, own[1:]):
        same = _eq_point(a["pt"], b["pt"])
        if same is False:
            continue
        between = requests[a["at"]:b["at"]] if b["at"] > a["at"] else []
        conj = [] if same is True else [same]
        ok = True
        for r in between:
            e = _eq_point(r, a["pt"])
            if e is False:
                ok = False
                break
            if e is not True:
                conj.append(e)
        if not ok:
            continue
        if mode != "callable":
            # stencil evaluations of one differencing call are distinct points by construction (h != 0); skip pairs inside one call
            pass
        terms.append(z3.And(*conj) if conj else True)
    ctx.check("C15.no_reevaluation_at_the_cached_point", zor(terms), info=dict(info, trace=trace))
    return dict(cls=",".join(trace))


def real_cases(params, cand):
    """Concrete histories for replay/realrun.py from a candidate (trace + model), plus generic aliasing patterns."""
    n = params.get("n", 1)
    f = common.fr_to_float
    model, info = cand["model"], cand.get("info") or {}
    trace = info.get("trace") or []
    ops = []
    for step, t in enumerate(trace):
        if t == "mutate":
            ops.append(dict(op="mutate", value=[f(model.get("m%d_%d" % (step, i), "0")) for i in range(n)]))
        elif t == "rescale":
            ops.append(dict(op="rescale", value=f(model.get("s%d" % step, "1"))))
        elif t == "mutate_returned":
            ops.append(dict(op="mutate_returned", value=[f(model.get("r%d_%d" % (step, i), "0")) for i in range(n)]))
        else:
            reuse = t.endswith("*")
            ops.append(dict(op=t.rstrip("*"), reuse=reuse, point=[f(model.get("p%d_%d" % (step, i), "0")) for i in range(n)]))
    x0 = [f(model.get("x0_%d" % i, "0")) for i in range(n)]
    base = dict(kind="sf_history", n=n, jac=params.get("jac", "callable"), x0=x0, eps=1e-8, rel_step=None)
    cases = [dict(base, ops=ops)]
    # the same trace with distinct, generic points (the model's points are often all zero)
    gen = []
    for k, o in enumerate(ops):
        o2 = dict(o)
        if "point" in o2 and not o2.get("reuse"):
            same_as_first = ops and "point" in o and o["point"] == next((q["point"] for q in ops if "point" in q), None)
            o2["point"] = [0.3 + 0.1 * i for i in range(n)] if same_as_first else [0.7 * (k + 1) + 0.2 * i for i in range(n)]
        if o2["op"] == "mutate":
            o2["value"] = [1.9 + 0.3 * k + 0.1 * i for i in range(n)]
        if o2["op"] == "mutate_returned":
            o2["value"] = [-7.5 - 0.3 * k + 0.1 * i for i in range(n)]
        if o2["op"] == "rescale":
            o2["value"] = 2.5
        gen.append(o2)
    cases.append(dict(base, x0=[0.3 + 0.1 * i for i in range(n)], ops=gen))
    deg = [i for i in range(n) if model.get("lb%d" % i) is not None and model.get("lb%d" % i) == model.get("ub%d" % i)]
    if deg and base["jac"] != "callable":
        cases.append(dict(base, x0=[0.3 + 0.1 * i for i in range(n)], ops=gen, degenerate=deg))
    if base["jac"] != "callable":
        # a narrow (not degenerate) side: the difference quotient exists there
        cases.append(dict(base, x0=[0.3 + 0.1 * i for i in range(n)], ops=gen, narrow=[0]))
    return cases
