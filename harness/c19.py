"""C19 — every packaged benchmark gradient is the gradient of its function (term-level differentiation)."""
from __future__ import annotations

from fractions import Fraction

import z3

from symx.core import CTX, PathAbort, Unsupported
from symx.scalar import SReal, Sym
from symx.arr import SArr
from symx import poly as P, diff
from . import common
from .c08 import ne, zor

NAMES = ["ackley", "beale", "griewank", "quartic", "rastrigin", "rosenbrock", "sphere", "styblinski_tang"]
CHAINED = {"beale", "rosenbrock"}
FUNCS = ["lbfgsb.benchmarks.%s" % n for n in NAMES] + ["lbfgsb.benchmarks.%s_grad" % n for n in NAMES]


def far(a, b):
    """|a-b| > 1e-6 (1+|b|) as z3."""
    d = (a - b)
    if d.is_concrete:
        return abs(d.v) > Fraction(1, 10 ** 6)
    dz, bz = d.z(), b.z()
    m = z3.RealVal("1/1000000") * (1 + z3.If(bz >= 0, bz, -bz))
    return z3.Or(dz > m, -dz > m)


def path(ctx, params):
    name, n = params["name"], params["n"]
    W = common.world()
    np = W.np
    bench = W.load("lbfgsb.benchmarks")
    f, g = getattr(bench, name), getattr(bench, name + "_grad")
    xs = []
    for i in range(n):
        v = ctx.real("x%d" % i)
        ctx.assume(z3.And(v >= -5, v <= 5), check=False)
        xs.append(SReal(v))
    if name == "ackley":
        ctx.assume(z3.Sum([x.z() * x.z() for x in xs]) >= z3.RealVal("1/100"), check=False)
    # pi is a symbol for the code; give the solver a tight enclosure (the identities hold for any value)
    ctx.assume(z3.And(z3.Real("pi") > z3.RealVal("3.14159"), z3.Real("pi") < z3.RealVal("3.1416")), check=False)
    x = np.array(xs)
    info = dict(name=name, n=n)
    try:
        # the pair is called before, at another point of the same dimension (a benchmark function must not depend on
        # what it was asked earlier: "for all x" includes "whatever came before")
        warm = np.array([SReal.of(Fraction(3, 8) + Fraction(i, 16)) for i in range(n)])
        try:
            f(warm)
            g(warm)
        except (PathAbort, Unsupported):
            raise
        except Exception:
            pass
        val = f(x)
        if name == "griewank":
            # domain: cos(x_i/sqrt(i)) != 0 (the quotient form of the gradient is 0/0 there); assumed, not forked
            ctx.cache["assume_divisors_nonzero"] = True
        try:
            grad = g(np.array(list(xs)))
        finally:
            ctx.cache.pop("assume_divisors_nonzero", None)
    except PathAbort:
        raise
    except Unsupported:
        raise
    except Exception as e:
        ctx.check("no_exception", True, info=dict(info, exc=type(e).__name__, msg=str(e)[:200]))
        return dict(cls="exception:" + type(e).__name__)
    shape_problems = []
    if isinstance(val, SArr):
        if val.ndim != 0:
            shape_problems.append("function returns an array of shape %s" % (val.shape,))
        val = val.data[0] if len(val.data) == 1 else val
    if not isinstance(val, SReal):
        shape_problems.append("function does not return a real scalar (%s)" % type(val).__name__)
    if not isinstance(grad, SArr) or grad.shape != (n,):
        shape_problems.append("gradient has shape %s, expected (%d,)" % (getattr(grad, "shape", None), n))
    ctx.check("shapes", bool(shape_problems), info=dict(info, problems=shape_problems))
    if shape_problems:
        return dict(cls="shape")
    if name == "griewank" and any(isinstance(d, SReal) and d.is_special for d in grad.data):
        # cos(x_i/sqrt(i)) = 0 makes the quotient form of the gradient 0/0: a singularity, outside the domain
        raise PathAbort("griewank: cos(x_i/sqrt(i)) = 0 excluded from the domain")
    if any(isinstance(d, SReal) and d.is_special for d in grad.data) or val.is_special:
        # a NaN/inf produced inside the assumed domain
        ctx.check("finite_on_domain", True, info=info)
        return dict(cls="special")
    exact, robust = [], []
    memo = {}
    for i in range(n):
        wrt = P.atom_for_const(xs[i].z())
        di = diff.d_term(val, wrt, np, memo)
        gi = SReal.of(grad.data[i])
        exact.append(ne(gi, di))
        robust.append(far(gi, di))
    r = ctx.check("gradient_is_derivative_of_the_term", zor(exact), info=info)
    if r["status"] != "unsat":
        # robust variant: a discrepancy that survives a 1e-6 relative margin
        ctx.check("gradient_differs_with_margin", zor(robust), info=info)
    return dict(cls="ok")


def real_case(params, witness):
    n = params["n"]
    return dict(kind="benchgrad", name=params["name"], n=n,
                x=[common.fr_to_float(witness.get("x%d" % i, "0")) for i in range(n)])
