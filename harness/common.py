"""Shared pieces of the kernel harnesses: worlds, memory instances, symbolic boxes, dense-B oracle."""
from __future__ import annotations

import itertools
import random
from collections import deque
from fractions import Fraction

import z3

from symx.core import CTX
from symx.loader import World
from symx.scalar import SReal, INF, NINF

_WORLD = {}


def world(key="default"):
    if key not in _WORLD:
        _WORLD[key] = World()
    return _WORLD[key]


def fresh_world():
    return World()


# ----------------------------------------------------------------------------
# memory instances: concrete rational correction pairs with s.y > 0 (y = A s, A SPD)

_FIXED = {
    # (n, m): list of (S rows, Y rows) — hand-picked so that the Cholesky factors are rational
    (2, 1): [([[3, 4]], [[24, 7]])],
}


def spd_matrix(n, rng, cond):
    """Random SPD rational matrix A = Q^T D Q-ish built as L L^T + diag."""
    L = [[Fraction(rng.randint(-3, 3), rng.randint(1, 3)) if j <= i else Fraction(0) for j in range(n)] for i in range(n)]
    for i in range(n):
        L[i][i] = Fraction(rng.randint(1, 4), rng.randint(1, 2)) * (Fraction(1) if i else Fraction(cond))
    A = [[sum(L[i][k] * L[j][k] for k in range(n)) for j in range(n)] for i in range(n)]
    return A


def memory_instance(n, m, seed, which=0):
    """-> (S, Y) lists of m rows (Fractions), oldest first."""
    if m == 0:
        return [], []
    if which == 0 and (n, m) in _FIXED:
        S, Y = _FIXED[(n, m)][0]
        return [[Fraction(v) for v in r] for r in S], [[Fraction(v) for v in r] for r in Y]
    rng = random.Random(1000 * seed + 97 * n + 13 * m + which)
    cond = [1, 50, 1][which % 3] if which else 1
    while True:
        A = spd_matrix(n, rng, cond)
        S = [[Fraction(rng.randint(-4, 4), rng.randint(1, 2)) for _ in range(n)] for _ in range(m)]
        if any(all(v == 0 for v in s) for s in S):
            continue
        Y = [[sum(A[i][j] * s[j] for j in range(n)) for i in range(n)] for s in S]
        if all(sum(a * b for a, b in zip(s, y)) > 0 for s, y in zip(S, Y)):
            return S, Y


def dense_B(n, S, Y):
    """Textbook BFGS recursion in rationals from theta*I (theta of the newest pair)."""
    if not S:
        return [[Fraction(int(i == j)) for j in range(n)] for i in range(n)], Fraction(1)
    s, y = S[-1], Y[-1]
    theta = sum(a * a for a in y) / sum(a * b for a, b in zip(s, y))
    B = [[theta * int(i == j) for j in range(n)] for i in range(n)]
    for s, y in zip(S, Y):
        Bs = [sum(B[i][j] * s[j] for j in range(n)) for i in range(n)]
        sBs = sum(s[i] * Bs[i] for i in range(n))
        ys = sum(a * b for a, b in zip(s, y))
        B = [[B[i][j] - Bs[i] * Bs[j] / sBs + y[i] * y[j] / ys for j in range(n)] for i in range(n)]
    return B, theta


def build_mats(W, n, S, Y, maxcor=None):
    """Run the real update_lbfgs_matrices under the shim for the concrete pairs (S, Y)."""
    bm = W.load("lbfgsb.bfgsmats")
    np = W.np
    mats = bm.LBFGSB_MATRICES(n)
    if not S:
        return mats, deque(), deque()
    x = [Fraction(0)] * n
    g = [Fraction(0)] * n
    X = deque([np.array([SReal(v) for v in x])])
    G = deque([np.array([SReal(v) for v in g])])
    maxcor = maxcor or len(S)
    for s, y in zip(S, Y):
        x = [a + b for a, b in zip(x, s)]
        g = [a + b for a, b in zip(g, y)]
        mats = bm.update_lbfgs_matrices(np.array([SReal(v) for v in x]), np.array([SReal(v) for v in g]),
                                        X, G, maxcor, mats, False)
    return mats, X, G


BOUND_KINDS = ("ff", "if", "fi", "ii")   # lower/upper finite (f) or infinite (i)


def bound_patterns(n, which="all"):
    if which == "all":
        return list(itertools.product(BOUND_KINDS, repeat=n))
    if which == "finite":
        return [("ff",) * n]
    raise ValueError(which)


def sym_point_and_box(ctx, np, n, pattern, gmag=10, xmag=10):
    """Symbolic x, g, l, u with l <= x <= u, g_i = 0 or 2^-gmag <= |g_i| <= 2^gmag, |x|,|l|,|u| <= 2^xmag."""
    xs, gs, ls, us = [], [], [], []
    lo, hi = Fraction(1, 2 ** gmag), Fraction(2 ** gmag)
    R = 2 ** xmag
    for i in range(n):
        x = ctx.real("x%d" % i)
        g = ctx.real("g%d" % i)
        ctx.assume(z3.And(x >= -R, x <= R), check=False)
        ctx.assume(z3.Or(g == 0, z3.And(g >= lo, g <= hi), z3.And(g <= -lo, g >= -hi)), check=False)
        xs.append(SReal(x))
        gs.append(SReal(g))
        k = pattern[i]
        if k[0] == "f":
            l = ctx.real("l%d" % i)
            ctx.assume(z3.And(l <= x, l >= -R), check=False)
            ls.append(SReal(l))
        else:
            ls.append(SReal(NINF))
        if k[1] == "f":
            u = ctx.real("u%d" % i)
            ctx.assume(z3.And(x <= u, u <= R), check=False)
            us.append(SReal(u))
        else:
            us.append(SReal(INF))
    return np.array(xs), np.array(gs), np.array(ls), np.array(us)


def zfin(v):
    """z3 term of a finite SReal."""
    return v.z()


def fr_to_float(s):
    if isinstance(s, (int, float)):
        return float(s)
    if "/" in s:
        a, b = s.split("/")
        return int(a) / int(b)
    return float(s)
