"""Relational orchestration harnesses: several symbolic runs of the real minimize_lbfgsb in ONE path
context with functional stubs, compared field by field (C06 restart, C07 callback checkpoint)."""
from __future__ import annotations

from fractions import Fraction

import z3

from symx.core import CTX, PathAbort, Unsupported
from symx.scalar import SReal, SBool, INF, NINF, ITE_MODE
from symx.arr import SArr
from . import common, orch
from .orch import Problem, Run, ST, eqv, zor, diff_lists, diff_snap, snapshot_state, _b
from .orch_single import MESSAGES, FUNCS  # noqa


def _setup(ctx, params):
    W = common.world("orch")
    orch.install(W)
    ST.reset()
    ST.ls_mode = params.get("ls_mode", "lean")
    ST.ls_tmax = params.get("ls_tmax", 1)
    ST.assume_new_trial = True
    orch.use_real_line_search(W, params.get("ls_mode") == "real")
    if params.get("ls_mode") == "real":
        from .c11 import install_cut
        install_cut(W, ctx)
    n = params.get("n", 1)
    prob = Problem(ctx, W, n, params.get("pattern", ("ff",) * n))
    gt = ctx.real("gtol")
    ctx.assume(gt >= 0, check=False)
    return W, prob, SReal(gt)


def _cfg(params, gtol, **over):
    cfg = dict(maxiter=params["K"], maxfun=params.get("maxfun", 40), maxls=params.get("maxls", 2), maxcor=params.get("maxcor", 2),
               ftol=0.0, gtol=gtol)
    cfg.update(over)
    return cfg


def _arr_list(a):
    return None if a is None else (a.shape, list(a.data))


def dir_state_diff(c1, c2):
    """violation term: two direction-stub calls received different states."""
    if c1["nm"] != c2["nm"]:
        return True
    terms = [diff_lists(c1["x"], c2["x"]), diff_lists(c1["grad"], c2["grad"])]
    if c1["nm"]:
        if c1["S"].shape != c2["S"].shape:
            return True
        terms.append(diff_lists(c1["S"].data, c2["S"].data))
        terms.append(diff_lists(c1["Y"].data, c2["Y"].data))
        terms.append(eqv(c1["theta"], c2["theta"]))
    return zor(terms)


def wrap(fn):
    def path(ctx, params):
        ITE_MODE[0] = True
        try:
            return fn(ctx, params)
        finally:
            ITE_MODE[0] = False
    return path


def _exc(ctx, run, info, what):
    e = run.exc
    import traceback
    tb = "".join(traceback.format_exception(type(e), e, e.__traceback__))[-600:]
    ctx.check("no_exception", True, info=dict(info, run=what, exc=type(e).__name__, msg=str(e)[:200], tb=tb))
    return dict(cls="exception:%s:%s" % (what, type(e).__name__))


# ---------------------------------------------------------------------------
# C06


def _c06(ctx, params):
    W, prob, gtol = _setup(ctx, params)
    K, k = params["K"], params["k"]
    maxcor2 = params.get("maxcor_restart", params.get("maxcor", 2))
    info = dict(params)
    U = Run(prob, "U").execute(_cfg(params, gtol))
    if U.exc is not None:
        return _exc(ctx, U, info, "U")
    A = Run(prob, "A").execute(_cfg(params, gtol, maxiter=k))
    if A.exc is not None:
        return _exc(ctx, A, info, "A")
    if A.result["message"] != MESSAGES["ITER"] or A.result["nit"] != k:
        return dict(cls="A-not-stopped-by-maxiter")
    snapA = snapshot_state(A.result)
    # restart that performs no iteration
    B0 = Run(prob, "B0").execute(_cfg(params, gtol, maxiter=k, maxcor=maxcor2, x0=A.result["x"], checkpoint=A.result))
    if B0.exc is not None:
        return _exc(ctx, B0, info, "B0")
    s0 = snapshot_state(B0.result)
    m_keep = min(snapA["sk"][0][0], maxcor2)
    n = prob.n
    exp_sk = snapA["sk"][1][(snapA["sk"][0][0] - m_keep) * n:]
    exp_yk = snapA["yk"][1][(snapA["yk"][0][0] - m_keep) * n:]
    if s0["sk"][0] != (m_keep, n):
        ctx.check("C06.noop_restart_keeps_pairs", True, info=dict(info, why="shape %s, expected %s" % (s0["sk"][0], (m_keep, n))))
    else:
        ctx.check("C06.noop_restart_keeps_pairs", zor([diff_lists(s0["sk"][1], exp_sk), diff_lists(s0["yk"][1], exp_yk)]), info=info)
    # restart that continues to K
    ck = A.result
    B = Run(prob, "B").execute(_cfg(params, gtol, maxcor=maxcor2, x0=ck["x"], checkpoint=ck))
    if B.exc is not None:
        return _exc(ctx, B, info, "B")
    last_update_stored = bool(A.updates) and A.updates[-1]
    if maxcor2 == params.get("maxcor", 2):
        # same memory size: the continuation must coincide with the uninterrupted run
        if len(U.dir_calls) > k:
            if not B.dir_calls:
                ctx.check("C06.next_iterate_state_equal", True, info=dict(info, why="restart performs no iteration although the uninterrupted run does"))
            else:
                ctx.check("C06.next_iterate_state_equal", dir_state_diff(U.dir_calls[k], B.dir_calls[0]), info=info)
        # the next iterate (one more iteration on both sides)
        U1 = Run(prob, "U1").execute(_cfg(params, gtol, maxiter=k + 1))
        B1 = Run(prob, "B1").execute(_cfg(params, gtol, maxiter=k + 1, x0=ck["x"], checkpoint=ck))
        if U1.exc is not None or B1.exc is not None:
            return _exc(ctx, U1 if U1.exc is not None else B1, info, "U1/B1")
        v, struct = diff_snap(snapshot_state(U1.result), snapshot_state(B1.result), fields=("x", "fun", "jac", "nit"))
        ctx.check("C06.next_iterate_equals_uninterrupted", v, info=dict(info, structural=struct))
        if last_update_stored:
            # (when the update at the split point was skipped by the curvature test, result.x is not the newest
            #  retained point and the checkpoint format cannot tell the restart so: the pairs formed LATER may
            #  differ; the property only speaks about the pairs carried over and the next iterate)
            # counters are not compared: a restart loses the wrapper's one-point memo and may legitimately
            # re-evaluate a point the uninterrupted run still had cached
            v, struct = diff_snap(snapshot_state(U.result), snapshot_state(B.result), fields=("x", "fun", "jac", "nit", "sk", "yk"))
            ctx.check("C06.restarted_equals_uninterrupted", v, info=dict(info, structural=struct))
    else:
        # reduced memory: the state handed to the next direction computation holds the most recent pairs
        if B.dir_calls and len(U.dir_calls) > k:
            cu, cb = U.dir_calls[k], B.dir_calls[0]
            terms = [diff_lists(cu["x"], cb["x"]), diff_lists(cu["grad"], cb["grad"])]
            if cb["nm"] != min(cu["nm"], maxcor2):
                terms.append(True)
            elif cb["nm"]:
                mu, mb = cu["S"].shape[1], cb["S"].shape[1]
                for i in range(n):
                    for j in range(mb):
                        terms.append(eqv(cb["S"][i, j], cu["S"][i, mu - mb + j]))
                        terms.append(eqv(cb["Y"][i, j], cu["Y"][i, mu - mb + j]))
            ctx.check("C06.reduced_memory_keeps_most_recent_pairs", zor(terms), info=info)
    # chain: A -> B(k2) -> C(K) for k < k2 < K
    k2 = params.get("k2")
    if k2 is not None and maxcor2 == params.get("maxcor", 2) and last_update_stored:
        Bm = Run(prob, "Bm").execute(_cfg(params, gtol, maxiter=k2, x0=ck["x"], checkpoint=ck))
        if Bm.exc is not None:
            return _exc(ctx, Bm, info, "Bm")
        if Bm.result["message"] == MESSAGES["ITER"] and Bm.updates and Bm.updates[-1]:
            C = Run(prob, "C").execute(_cfg(params, gtol, x0=Bm.result["x"], checkpoint=Bm.result))
            if C.exc is not None:
                return _exc(ctx, C, info, "C")
            v, struct = diff_snap(snapshot_state(U.result), snapshot_state(C.result), fields=("x", "fun", "jac", "nit", "sk", "yk"))
            ctx.check("C06.chain_of_restarts_equals_uninterrupted", v, info=dict(info, structural=struct))
    return dict(cls="U:%s/nit=%s B:%s/nit=%s" % (U.result["message"][:9], U.result["nit"], B.result["message"][:9], B.result["nit"]))


c06 = wrap(_c06)


# ---------------------------------------------------------------------------
# C07


def _c07(ctx, params):
    W, prob, gtol = _setup(ctx, params)
    K = params["K"]
    info = dict(params)
    N = Run(prob, "N").execute(_cfg(params, gtol))
    if N.exc is not None:
        return _exc(ctx, N, info, "N")
    C = Run(prob, "C").execute(_cfg(params, gtol, callback_kind="false"))
    if C.exc is not None:
        return _exc(ctx, C, info, "C")
    v, struct = diff_snap(snapshot_state(N.result), snapshot_state(C.result), fields=("x", "fun", "jac", "nfev", "njev", "nit", "sk", "yk", "message", "success"))
    ctx.check("C07.callback_returning_false_does_not_alter_the_run", v, info=dict(info, structural=struct))
    for idx, c in enumerate(C.cb, start=1):
        live = snapshot_state(c["state"])          # the state object as it is NOW, after the run finished
        at_call = c["snap"]
        # the iteration this callback reports (no callback is made for an iteration whose line search failed)
        k = at_call["nit"]
        if not isinstance(k, int) or k < idx or k > K:
            ctx.check("C07.state_nit_is_the_iteration_number", True, info=dict(info, call=idx, nit=k))
            continue
        v, struct = diff_snap(at_call, live, fields=("x", "fun", "jac", "nfev", "njev", "nit", "sk", "yk"))
        ctx.check("C07.state_unchanged_after_callback_returns", v, info=dict(info, k=k, structural=struct))
        M = Run(prob, "M%d" % k).execute(_cfg(params, gtol, maxiter=k))
        if M.exc is not None:
            return _exc(ctx, M, info, "M%d" % k)
        v, struct = diff_snap(at_call, snapshot_state(M.result))
        ctx.check("C07.state_equals_result_of_run_with_maxiter_k", v, info=dict(info, k=k, structural=struct))
        xk_bad = diff_lists(c["xk_snap"], at_call["x"])
        ctx.check("C07.xk_argument_equals_state_x", xk_bad, info=dict(info, k=k))
        if params.get("restart", True) and k < K:
            # crash after the run went on: restart from the retained state object (as it is now)
            st = c["state"]
            R1 = Run(prob, "R%d+1" % k).execute(_cfg(params, gtol, maxiter=k + 1, x0=st["x"], checkpoint=st))
            M1 = Run(prob, "M%d" % (k + 1)).execute(_cfg(params, gtol, maxiter=k + 1))
            if R1.exc is not None or M1.exc is not None:
                e = R1.exc if R1.exc is not None else M1.exc
                ctx.check("C07.restart_from_state_gives_the_next_iterate", True, info=dict(info, k=k, exc=type(e).__name__, msg=str(e)[:200]))
            else:
                v, struct = diff_snap(snapshot_state(M1.result), snapshot_state(R1.result), fields=("x", "fun", "jac", "nit"))
                ctx.check("C07.restart_from_state_gives_the_next_iterate", v, info=dict(info, k=k, structural=struct))
                stored = len(C.updates) >= idx and C.updates[idx - 1]
                if stored and K > k + 1:
                    R = Run(prob, "R%d" % k).execute(_cfg(params, gtol, x0=st["x"], checkpoint=st))
                    if R.exc is not None:
                        ctx.check("C07.restart_from_state_equals_uninterrupted", True, info=dict(info, k=k, exc=type(R.exc).__name__))
                    else:
                        v, struct = diff_snap(snapshot_state(N.result), snapshot_state(R.result), fields=("x", "fun", "jac", "nit", "sk", "yk"))
                        ctx.check("C07.restart_from_state_equals_uninterrupted", v, info=dict(info, k=k, structural=struct))
    return dict(cls="N:%s/nit=%s cb=%d" % (N.result["message"][:9], N.result["nit"], len(C.cb)))


c07 = wrap(_c07)


# ---------------------------------------------------------------------------
# C17 — gradient scaler == explicitly scaled objective


class ScaledRun(Run):
    """Objective s*f with gradient s*grad f (no scaler)."""

    def __init__(self, prob, s, label="E"):
        super().__init__(prob, label)
        self.s = s

    def fun(self, x, *args):
        return super().fun(x) * self.s

    def jac(self, x, *args):
        return super().jac(x) * self.s

    def user_f(self, pt):
        return self.fu(pt)[0] * self.s

    def user_scale(self):
        return self.s


def _c17(ctx, params):
    W, prob, gtol = _setup(ctx, params)
    info = dict(params)
    sv = SReal(ctx.real("scale"))
    ctx.assume(z3.And(_b(sv >= Fraction(1, 1000)), _b(sv <= 1000)), check=False)
    ft = None
    if params.get("ftarget"):
        ft = SReal(ctx.real("ftarget"))
    ftol = 0.0
    if params.get("ftol") == "sym":
        fv = SReal(ctx.real("ftol"))
        ctx.assume(_b(fv >= 0), check=False)
        ftol = fv
    S = Run(prob, "S")

    def scaler(x, grad, lb, ub):
        S.scaler_calls.append(dict(x=list(x.data), grad=list(grad.data), lb=list(lb.data), ub=list(ub.data)))
        return sv
    fd = params.get("jac")            # None: callable gradient; else a finite-difference mode
    jkw = {} if fd is None else dict(jac=None if fd == "none" else fd)
    cfgS = _cfg(params, gtol, gradient_scaler=scaler, ftol=ftol, callback_kind="false", **jkw)
    if ft is not None:
        cfgS["ftarget"] = ft
    if params.get("update_identity"):
        # an update function that changes nothing: the stop tests go through the branch that follows the update call
        cfgS["update_fun_def"] = lambda x, f0, f0_old, grad, X, G: (f0, f0_old, grad, G)
    S.execute(cfgS)
    if S.exc is not None:
        return _exc(ctx, S, info, "S")
    if not S.gcalls and not S.fd_calls:
        # target already met at x0: no gradient is ever computed, so no scaler can be applied (documented corner)
        return dict(cls="target-met-at-x0")
    E = ScaledRun(prob, sv, "E")
    cfgE = _cfg(params, gtol, ftol=ftol, callback_kind="false", **jkw)
    if ft is not None:
        cfgE["ftarget"] = ft * sv
    if params.get("update_identity"):
        cfgE["update_fun_def"] = lambda x, f0, f0_old, grad, X, G: (f0, f0_old, grad, G)
    E.execute(cfgE)
    if E.exc is not None:
        return _exc(ctx, E, info, "E")
    v, struct = diff_snap(snapshot_state(S.result), snapshot_state(E.result), fields=("x", "fun", "jac", "nfev", "njev", "nit", "sk", "yk", "message", "success"))
    ctx.check("C17.same_result_as_scaled_objective", v, info=dict(info, structural=struct))
    # same evaluation points, same order
    if len(S.fcalls) != len(E.fcalls) or len(S.gcalls) != len(E.gcalls):
        ctx.check("C17.same_evaluation_points", True, info=dict(info, why="%d/%d objective and %d/%d gradient calls" % (len(S.fcalls), len(E.fcalls), len(S.gcalls), len(E.gcalls))))
    else:
        ctx.check("C17.same_evaluation_points", zor([diff_lists(a[0], b[0]) for a, b in zip(S.fcalls, E.fcalls)] + [diff_lists(a[0], b[0]) for a, b in zip(S.gcalls, E.gcalls)]), info=info)
    # callback states coincide too
    if len(S.cb) != len(E.cb):
        ctx.check("C17.same_callback_states", True, info=dict(info, why="%d vs %d callbacks" % (len(S.cb), len(E.cb))))
    else:
        terms = []
        for a, b in zip(S.cb, E.cb):
            v, struct = diff_snap(a["snap"], b["snap"])
            terms.append(True if struct else v)
        ctx.check("C17.same_callback_states", zor(terms), info=info)
    # the scaler is invoked exactly once with (clipped x0, unscaled gradient there, bounds)
    bad = len(S.scaler_calls) != 1
    if fd is not None:
        ctx.check("C17.scaler_called_once_with_start_point_and_unscaled_gradient", bad, info=dict(info, calls=len(S.scaler_calls)))
    elif not bad and S.gcalls:
        c = S.scaler_calls[0]
        x0c = S.fcalls[0][0] if S.fcalls else None
        terms = [diff_lists(c["grad"], S.gcalls[0][1]), diff_lists(c["x"], S.gcalls[0][0]), diff_lists(c["lb"], prob.lb), diff_lists(c["ub"], prob.ub)]
        ctx.check("C17.scaler_called_once_with_start_point_and_unscaled_gradient", zor(terms), info=info)
    else:
        reached_early = S.result["message"] == MESSAGES["TARGET"] and S.result["nit"] == 0 and not S.gcalls
        ctx.check("C17.scaler_called_once_with_start_point_and_unscaled_gradient", bad and not reached_early, info=dict(info, calls=len(S.scaler_calls)))
    if ft is not None and S.result["message"] == MESSAGES["TARGET"]:
        # the target stop is tested on the unscaled value
        fx = prob.f(list(S.result["x"].data))[0]
        ctx.check("C17.target_tested_on_unscaled_value", _b(fx > ft), info=info)
    return dict(cls="S:%s/nit=%s" % (S.result["message"][:9], S.result["nit"]))


c17 = wrap(_c17)


# ---------------------------------------------------------------------------
# C14 — determinism, isolation, inputs untouched


class RecLogger:
    def __init__(self):
        self.lines = []

    def info(self, msg, *a):
        self.lines.append(str(msg))

    warning = info
    debug = info
    error = info


def _module_state(W):
    """Python-level mutable state of the package's modules: every module-level container, class attribute of the
    package's own classes, and mutable default argument of its functions (real functions, not the stubs)."""
    import types as _types
    from collections import deque as _deque
    out = {}

    def sig(v):
        if isinstance(v, SArr):
            return ("arr", v.shape, tuple(repr(d) for d in v.data[:8]))
        if isinstance(v, dict):
            return ("dict", tuple(sorted((repr(k), type(x).__name__) for k, x in v.items())))
        if isinstance(v, (list, set, _deque, tuple)):
            return (type(v).__name__, len(v), tuple(type(x).__name__ for x in list(v)[:8]))
        return repr(v)
    for mname, mod in sorted(W.modules.items()):
        if not mname.startswith("lbfgsb"):
            continue
        for name, val in sorted(vars(mod).items()):
            if name.startswith("__") or name.startswith("_symx"):
                continue
            if isinstance(val, (_types.ModuleType,)):
                continue
            if isinstance(val, (dict, list, set, _deque, SArr)):
                out["%s.%s" % (mname, name)] = sig(val)
            elif isinstance(val, type) and getattr(val, "__module__", "") == mname:
                for k, a in sorted(vars(val).items()):
                    if not k.startswith("__") and not callable(a) and not isinstance(a, (property, staticmethod, classmethod)):
                        out["%s.%s.%s" % (mname, name, k)] = sig(a)
            elif isinstance(val, _types.FunctionType) and getattr(val, "__module__", None) in (None, mname) or (isinstance(val, _types.FunctionType) and val.__globals__ is vars(mod)):
                for i, d in enumerate(val.__defaults__ or ()):
                    if isinstance(d, (dict, list, set, SArr)):
                        out["%s.%s.default%d" % (mname, name, i)] = sig(d)
    out["numpy.errstate"] = repr(sorted(W.np.geterr().items()))
    main = W.modules.get("lbfgsb.main")
    if main is not None and hasattr(main, "_symx_real"):
        for fname, fn in main._symx_real.items():
            for i, d in enumerate(getattr(fn, "__defaults__", None) or ()):
                if isinstance(d, (dict, list, set, SArr)):
                    out["real.%s.default%d" % (fname, i)] = sig(d)
    return out


def _switch_upd(np, R, at, f2, g2):
    """update_fun_def that, at its call number `at`, switches run R to a second objective (f2, g2) and rewrites the
    stored gradients at the stored points (functional: two runs given the same oracles do the same)."""
    from collections import deque

    def upd(x, f0, f0_old, grad, X, G):
        i = len(R.upd_calls)
        R.upd_calls.append(dict(x=list(x.data), nX=len(X)))
        if i != at:
            return f0, f0_old, grad, G
        R.fu, R.gu = f2, g2
        newG = deque(np.array(list(g2(list(xx.data)))) for xx in X)
        return f2(list(x.data))[0], f0_old, np.array(list(g2(list(x.data)))), newG
    return upd


def _c14(ctx, params):
    W, prob, gtol = _setup(ctx, params)
    np = W.np
    info = dict(params)
    mode = params["mode"]
    before_mod = _module_state(W)
    base = _cfg(params, gtol, callback_kind="false")
    if params.get("jac"):
        base["jac"] = None if params["jac"] == "none" else params["jac"]
    sw = None
    if params.get("rewrite_at") is not None:
        # both runs redefine the objective on the fly (so that the history filter has something to drop)
        from symx.oracle import UF
        sw = (params["rewrite_at"], UF("qf", 1), UF("qg", prob.n))
    P1 = Run(prob, "P1")
    P1.execute(dict(base, update_fun_def=_switch_upd(np, P1, *sw)) if sw else dict(base))
    if P1.exc is not None:
        return _exc(ctx, P1, info, "P1")
    s1 = snapshot_state(P1.result)
    flds = ("x", "fun", "jac", "nfev", "njev", "nit", "sk", "yk", "message", "success")
    if mode == "repeat":
        # another problem runs in between
        Q = Problem(ctx, W, prob.n, params.get("pattern", ("ff",) * prob.n), name="q")
        Run(Q, "Q").execute(dict(base, maxiter=1))
        P2 = Run(prob, "P2").execute(dict(base))
        if P2.exc is not None:
            return _exc(ctx, P2, info, "P2")
        v, struct = diff_snap(s1, snapshot_state(P2.result), fields=flds)
        ctx.check("C14.same_arguments_same_result", v, info=dict(info, structural=struct))
    elif mode == "nested":
        # a complete other optimisation runs inside the objective at a symbolic call index
        Q = Problem(ctx, W, prob.n, params.get("pattern", ("ff",) * prob.n), name="q")
        at = ctx.choose_int(0, max(len(P1.fcalls) - 1, 0), "nest_at")
        P2 = Run(prob, "P2")
        orig_fun = P2.fun
        saved = {}

        def fun(x, *a):
            if len(P2.fcalls) == at and "done" not in saved:
                saved["done"] = True
                keep = ST.run
                Run(Q, "Qnested").execute(dict(base, maxiter=1))
                ST.run = keep
            return orig_fun(x)
        P2.fun = fun
        P2.execute(dict(base))
        if P2.exc is not None:
            return _exc(ctx, P2, info, "P2")
        v, struct = diff_snap(s1, snapshot_state(P2.result), fields=flds)
        ctx.check("C14.nested_run_does_not_disturb", v, info=dict(info, structural=struct, at=at))
    elif mode == "inputs":
        # read-only inputs are accepted and nothing is written into them
        x0 = prob.x0_array()
        bounds = prob.bounds_array()
        x0.flags.writeable = False
        bounds.flags.writeable = False
        P2 = Run(prob, "P2").execute(dict(base, x0=x0, bounds=bounds))
        if P2.exc is not None:
            ctx.check("C14.read_only_inputs_accepted", True, info=dict(info, exc=type(P2.exc).__name__, msg=str(P2.exc)[:200]))
            return dict(cls="exception")
        ctx.check("C14.inputs_untouched", zor([diff_lists(P2.x0_before, list(x0.data)), diff_lists(P2.bounds_before, list(bounds.data))]), info=info)
        v, struct = diff_snap(s1, snapshot_state(P2.result), fields=flds)
        ctx.check("C14.same_arguments_same_result", v, info=dict(info, structural=struct))
    elif mode == "checkpoint":
        # restart twice from the same (read-only) checkpoint object, optionally with a gradient scaler
        A = Run(prob, "A").execute(dict(base, maxiter=params["k"]))
        if A.exc is not None:
            return _exc(ctx, A, info, "A")
        ck = A.result
        snap0 = snapshot_state(ck)
        extra = {}
        if params.get("scaler"):
            sv = SReal(ctx.real("scale"))
            ctx.assume(z3.And(_b(sv >= Fraction(1, 1000)), _b(sv <= 1000)), check=False)
            extra["gradient_scaler"] = lambda x, g, lb, ub: sv
        if params.get("readonly"):
            for arr in (ck["x"], ck["jac"], ck["hess_inv"].sk, ck["hess_inv"].yk):
                arr.flags.writeable = False
        R1 = Run(prob, "R1").execute(dict(base, x0=ck["x"], checkpoint=ck, **extra))
        if R1.exc is not None:
            ctx.check("C14.read_only_inputs_accepted" if params.get("readonly") else "no_exception", True,
                      info=dict(info, exc=type(R1.exc).__name__, msg=str(R1.exc)[:200]))
            return dict(cls="exception")
        v, struct = diff_snap(snap0, snapshot_state(ck), fields=flds)
        ctx.check("C14.checkpoint_untouched", v, info=dict(info, structural=struct))
        R2 = Run(prob, "R2").execute(dict(base, x0=ck["x"], checkpoint=ck, **extra))
        if R2.exc is not None:
            return _exc(ctx, R2, info, "R2")
        v, struct = diff_snap(snapshot_state(R1.result), snapshot_state(R2.result), fields=flds)
        ctx.check("C14.restart_twice_same_result", v, info=dict(info, structural=struct))
    elif mode == "logging":
        lg = RecLogger()
        P2 = Run(prob, "P2")
        P2.execute(dict(base, iprint=params["iprint"], logger=lg, **(dict(update_fun_def=_switch_upd(np, P2, *sw)) if sw else {})))
        if P2.exc is not None:
            ctx.check("C14.logging_does_not_raise", True, info=dict(info, exc=type(P2.exc).__name__, msg=str(P2.exc)[:200]))
            return dict(cls="exception")
        v, struct = diff_snap(s1, snapshot_state(P2.result), fields=flds)
        ctx.check("C14.logging_has_no_numerical_influence", v, info=dict(info, structural=struct, lines=len(lg.lines)))
        if len(P1.fcalls) != len(P2.fcalls):
            ctx.check("C14.logging_same_evaluations", True, info=info)
        else:
            ctx.check("C14.logging_same_evaluations", zor(diff_lists(a[0], b[0]) for a, b in zip(P1.fcalls, P2.fcalls)), info=info)
    after_mod = _module_state(W)
    ctx.check("C14.no_module_level_state_changed", before_mod != after_mod, info=dict(info, before=str(before_mod)[:300], after=str(after_mod)[:300]))
    return dict(cls="%s:%s/nit=%s" % (mode, P1.result["message"][:9], P1.result["nit"]))


c14 = wrap(_c14)


# ---------------------------------------------------------------------------
# C20 — failures of user callables surface unchanged and leave nothing behind

EXC_TYPES = [TypeError, IndexError, ValueError, AssertionError, ZeroDivisionError, KeyError, StopIteration, ArithmeticError, LookupError]


class UserError(RuntimeError):
    pass


def _c20(ctx, params):
    W, prob, gtol = _setup(ctx, params)
    info = dict(params)
    kind = params["kind"]
    fd = params.get("jac")            # None: callable gradient; else a finite-difference mode (faults inside a difference sweep)
    jkw = {} if fd is None else dict(jac=None if fd == "none" else fd)
    base = _cfg(params, gtol, callback_kind="false", **jkw)
    ftv = SReal(ctx.real("ftarget"))
    if kind in ("ftarget",) or params.get("with_ftarget"):
        pass
    before_mod = _module_state(W)
    clean = Run(prob, "clean")
    cfg_clean = dict(base)
    _user_callables(ctx, clean, cfg_clean, kind, ftv, gtol)
    clean.execute(cfg_clean)
    if clean.exc is not None:
        return _exc(ctx, clean, info, "clean")
    ncalls = dict(fun=len(clean.fcalls), jac=len(clean.gcalls), callback=len(clean.cb), ftarget=clean.ftarget_calls, gtol=clean.gtol_calls,
                  scaler=len(clean.scaler_calls), update=len(clean.upd_calls))[kind]
    if ncalls == 0:
        return dict(cls="%s-never-called" % kind)
    idx = ctx.choose_int(0, ncalls - 1, "fault_at")
    etype = (EXC_TYPES + [UserError])[ctx.choose_int(0, len(EXC_TYPES), "exc_type")]
    err = etype("user failure #%d" % idx)
    F = Run(prob, "faulty")
    F.faults[(kind, idx)] = err
    cfgF = dict(base)
    _user_callables(ctx, F, cfgF, kind, ftv, gtol)
    F.execute(cfgF)
    finfo = dict(info, exc_type=etype.__name__, at=idx)
    if F.exc is None:
        ctx.check("C20.exception_propagates", True, info=dict(finfo, got="a result with message %r" % (F.result.get("message"),)))
    elif F.exc is not err:
        ctx.check("C20.exception_propagates", True, info=dict(finfo, got="%s: %s" % (type(F.exc).__name__, str(F.exc)[:150])))
    else:
        ctx.check("C20.exception_propagates", False, info=finfo)
    after = Run(prob, "after")
    cfgA = dict(base)
    _user_callables(ctx, after, cfgA, kind, ftv, gtol)
    after.execute(cfgA)
    if after.exc is not None:
        ctx.check("C20.fault_free_call_afterwards_unaffected", True, info=dict(finfo, exc=type(after.exc).__name__))
    else:
        v, struct = diff_snap(snapshot_state(clean.result), snapshot_state(after.result), fields=("x", "fun", "jac", "nfev", "njev", "nit", "sk", "yk", "message", "success"))
        ctx.check("C20.fault_free_call_afterwards_unaffected", v, info=dict(finfo, structural=struct))
    ctx.check("C20.no_module_level_state_changed", before_mod != _module_state(W), info=finfo)
    return dict(cls="%s@%d:%s" % (kind, idx, etype.__name__))


def _user_callables(ctx, run, cfg, kind, ftv, gtol):
    """Install the callable variants needed for fault kind `kind` on `run`/`cfg`."""
    if kind == "ftarget":
        def ftarget():
            run._fault("ftarget", run.ftarget_calls)
            run.ftarget_calls += 1
            return ftv
        cfg["ftarget"] = ftarget
    if kind == "gtol":
        def g():
            run._fault("gtol", run.gtol_calls)
            run.gtol_calls += 1
            return gtol
        cfg["gtol"] = g
    if kind == "scaler":
        def scaler(x, grad, lb, ub):
            run._fault("scaler", len(run.scaler_calls))
            run.scaler_calls.append(1)
            return SReal.of(2)
        cfg["gradient_scaler"] = scaler
    if kind == "update":
        def upd(x, f0, f0_old, grad, X, G):
            run._fault("update", len(run.upd_calls))
            run.upd_calls.append(1)
            return f0, f0_old, grad, G
        cfg["update_fun_def"] = upd


c20 = wrap(_c20)


# ---------------------------------------------------------------------------
# C13 — redefining the objective on the fly


def _c13_identity(ctx, params):
    W, prob, gtol = _setup(ctx, params)
    info = dict(params)
    ftol = 0.0
    if params.get("ftol") == "sym":
        fv = SReal(ctx.real("ftol"))
        ctx.assume(_b(fv >= 0), check=False)
        ftol = fv
    extra = {}
    if params.get("ftarget"):
        extra["ftarget"] = SReal(ctx.real("ftarget"))
    base = _cfg(params, gtol, ftol=ftol, callback_kind="false", **extra)
    N = Run(prob, "N").execute(dict(base))
    if N.exc is not None:
        return _exc(ctx, N, info, "N")
    I = Run(prob, "I")

    def ident(x, f0, f0_old, grad, X, G):
        I.upd_calls.append(dict(x=list(x.data), nX=len(X)))
        return f0, f0_old, grad, G
    I.execute(dict(base, update_fun_def=ident))
    if I.exc is not None:
        return _exc(ctx, I, info, "I")
    flds = ("x", "fun", "jac", "nfev", "njev", "nit", "sk", "yk", "message", "success", "status")
    v, struct = diff_snap(snapshot_state(N.result), snapshot_state(I.result), fields=flds)
    ctx.check("C13.identity_update_leaves_result_identical", v, info=dict(info, structural=struct))
    if len(N.cb) != len(I.cb):
        ctx.check("C13.identity_update_leaves_callback_states_identical", True, info=dict(info, why="%d vs %d callbacks" % (len(N.cb), len(I.cb))))
    else:
        terms = []
        for a, b in zip(N.cb, I.cb):
            v, struct = diff_snap(a["snap"], b["snap"], fields=flds)
            terms.append(True if struct else v)
        ctx.check("C13.identity_update_leaves_callback_states_identical", zor(terms), info=info)
    if len(N.fcalls) != len(I.fcalls) or len(N.gcalls) != len(I.gcalls):
        ctx.check("C13.identity_update_leaves_evaluations_identical", True, info=dict(info, why="call counts differ"))
    else:
        ctx.check("C13.identity_update_leaves_evaluations_identical", zor([diff_lists(a[0], b[0]) for a, b in zip(N.fcalls, I.fcalls)] + [diff_lists(a[0], b[0]) for a, b in zip(N.gcalls, I.gcalls)]), info=info)
    return dict(cls="N:%s/nit=%s" % (N.result["message"][:9], N.result["nit"]))


c13_identity = wrap(_c13_identity)


def _c13_rewrite(ctx, params):
    """At update call number `at` (0 = the initial call) the user switches to a new objective (f2, g2) and
    rewrites every stored gradient with g2 at the stored point."""
    from symx.oracle import UF
    from .c10 import EPS
    from fractions import Fraction as _Fr
    W, prob, gtol = _setup(ctx, params)
    np = W.np
    n = prob.n
    info = dict(params)
    at = params["at"]
    if params.get("eps_SY") is not None:
        # the solver's curvature threshold option: every filter / acceptance test of the run uses it
        EPS = _Fr(params["eps_SY"])
    eps_kw = dict(eps_SY=float(EPS)) if params.get("eps_SY") is not None else {}
    f2, g2 = UF("qf", 1), UF("qg", n)
    R = Run(prob, "R")
    seen = dict(X=None)

    def upd(x, f0, f0_old, grad, X, G):
        i = len(R.upd_calls)
        R.upd_calls.append(dict(x=list(x.data), nX=len(X)))
        if i != at:
            return f0, f0_old, grad, G
        # the switch: new objective from now on, stored gradients rewritten at the stored points
        R.fu, R.gu = f2, g2
        from collections import deque
        if params.get("inplace"):
            # the user rewrites the stored gradient arrays in place and hands the same deque back
            for xx, gg in zip(X, G):
                for i, t in enumerate(g2(list(xx.data))):
                    gg[i] = t
            newG = G
        else:
            newG = deque(np.array(list(g2(list(xx.data)))) for xx in X)
        newgrad = np.array(list(g2(list(x.data))))
        newf = f2(list(x.data))[0]
        newf_old = SReal(ctx.fresh("f0_old_new"))
        seen.update(X=[list(xx.data) for xx in X], x=list(x.data), f=newf, grad=list(newgrad.data), nX=len(X))
        R.switch_dir_index = len(R_dir_calls())
        return newf, newf_old, newgrad, newG

    def R_dir_calls():
        return ST.dir_calls
    d0 = len(ST.dir_calls)
    ck_info = None
    extra = {}
    if params.get("ck_pairs"):
        # restart from an arbitrary coherent checkpoint: the INITIAL update call then sees a non-empty history
        from .orch_single import make_checkpoint
        ck, ck_info = make_checkpoint(ctx, W, prob, dict(ck_pairs=params["ck_pairs"], ck_nit=1, ck_nfev=2))
        extra = dict(checkpoint=ck, x0=ck["x"])
    extra.update(eps_kw)
    R.execute(_cfg(params, gtol, callback_kind="false", update_fun_def=upd, **extra))
    if R.exc is not None:
        return _exc(ctx, R, info, "R")
    if seen["X"] is None:
        return dict(cls="switch-not-reached")
    res = R.result
    hi = res["hess_inv"]
    m = hi.sk.shape[0]
    # visited points: every accepted iterate of the run (start + accepted steps)
    its = []
    if ck_info is not None:
        its = [list(p) for p in ck_info["points"]]
    elif R.fcalls:
        its.append(R.fcalls[0][0])
    for c in R.ls_calls:
        if c["ret"] is not None:
            its.append([a + c["ret"] * b for a, b in zip(c["x0"], c["d"])])
    # 1. pairs are differences of the REWRITTEN gradients at visited points (chronological chain)
    gv = [g2(p) for p in its]

    def same(p, q):
        t = diff_lists(p, q)
        return z3.BoolVal(not t) if isinstance(t, bool) else z3.Not(t)
    memo = {}

    def ok(a, j):
        if j < 0:
            return z3.BoolVal(True)
        if (a, j) in memo:
            return memo[(a, j)]
        alts = []
        for k in range(a):
            sdiff = [its[a][i] - its[k][i] for i in range(n)]
            ydiff = [gv[a][i] - gv[k][i] for i in range(n)]
            alts.append(z3.And(same([hi.sk[j, i] for i in range(n)], sdiff), same([hi.yk[j, i] for i in range(n)], ydiff), ok(k, j - 1)))
        r = z3.Or(*alts) if alts else z3.BoolVal(False)
        memo[(a, j)] = r
        return r
    if m:
        good = z3.Or(*[ok(a, m - 1) for a in range(len(its))])
        ctx.check("C13.pairs_are_differences_of_rewritten_gradients", z3.simplify(z3.Not(good)), info=info)
        # 2. every retained pair satisfies the curvature condition
        bad = []
        for j in range(m):
            sy = sum((hi.sk[j, i] * hi.yk[j, i] for i in range(n)), SReal.of(0))
            yy = sum((hi.yk[j, i] * hi.yk[j, i] for i in range(n)), SReal.of(0))
            bad.append(_b(sy <= SReal.of(EPS) * yy))
        ctx.check("C13.retained_pairs_satisfy_curvature", zor(bad), info=info)
        pos = []
        for j in range(m):
            sy = sum((hi.sk[j, i] * hi.yk[j, i] for i in range(n)), SReal.of(0))
            pos.append(_b(sy <= 0))
        ctx.check("C18.pairs_have_positive_curvature", zor(pos), info=info)
    # 3. next direction computation sees the state of a restart on the new objective from the rewritten checkpoint
    k = getattr(R, "switch_dir_index", None)
    dirs = ST.dir_calls[d0:]
    if k is not None and k - d0 < len(dirs) and at > 0:
        nxt = dirs[k - d0]
        # expected memory: filter the rewritten history (newest point always kept) then add the current point
        pts = seen["X"] + [seen["x"]]
        grads = [list(g2(p)) for p in seen["X"]] + [seen["grad"]]
        # the restart semantics is evaluated by the real code itself: a fresh run from a checkpoint
        CK = Run(prob, "CK")
        CK.fu, CK.gu = f2, g2
        keep_pts, keep_g = [pts[-2]], [grads[-2]] if len(pts) >= 2 else ([], [])
        # build the checkpoint the user would write down: x, f', grad', pairs = differences over retained points
        ret_p, ret_g = [pts[-1]], [grads[-1]]
        chain_p, chain_g = filter_history(seen["X"], [list(g2(p)) for p in seen["X"]], EPS)
        # the current point joins the history iff the pair it forms with the newest retained point is valid
        s_new = [a - b for a, b in zip(seen["x"], chain_p[-1])]
        y_new = [a - b for a, b in zip(seen["grad"], chain_g[-1])]
        sy = sum((a * b for a, b in zip(s_new, y_new)), SReal.of(0))
        yy = sum((a * a for a in y_new), SReal.of(0))
        if bool(sy > SReal.of(EPS) * yy):
            allp, allg = chain_p + [seen["x"]], chain_g + [seen["grad"]]
        else:
            allp, allg = chain_p, chain_g
        sk = [[b - a for a, b in zip(allp[i], allp[i + 1])] for i in range(len(allp) - 1)]
        yk = [[b - a for a, b in zip(allg[i], allg[i + 1])] for i in range(len(allg) - 1)]
        mm = len(sk)
        hinv = W.sp.optimize.LbfgsInvHessProduct(np.array(sk).reshape(mm, n) if mm else np.zeros((0, n)), np.array(yk).reshape(mm, n) if mm else np.zeros((0, n)))
        ck = W.sp.optimize.OptimizeResult(fun=seen["f"], jac=np.array(seen["grad"]), nfev=1, njev=1, nit=0, status=1, message="", x=np.array(seen["x"]), success=True, hess_inv=hinv)
        d1 = len(ST.dir_calls)
        CK.execute(_cfg(params, gtol, maxiter=1, x0=np.array(seen["x"]), checkpoint=ck, **eps_kw))
        if CK.exc is None:
            dck = ST.dir_calls[d1:]
            if dck:
                ctx.check("C13.next_iterate_as_restart_on_new_objective", dir_state_diff(nxt, dck[0]), info=info)
    return dict(cls="R:%s/nit=%s/pairs=%d" % (res["message"][:9], res["nit"], m))


def filter_history(X, G, eps):
    """Reference semantics of 'retained after the rewrite': walk back from the newest stored point, keep a
    point iff the pair it forms with the previously kept (newer) point satisfies the curvature condition."""
    keepX, keepG = [X[-1]], [G[-1]]
    for k in range(len(X) - 2, -1, -1):
        s = [a - b for a, b in zip(keepX[0], X[k])]
        y = [a - b for a, b in zip(keepG[0], G[k])]
        sy = sum((a * b for a, b in zip(s, y)), SReal.of(0))
        yy = sum((a * a for a in y), SReal.of(0))
        if bool(sy > SReal.of(eps) * yy):
            keepX.insert(0, X[k])
            keepG.insert(0, G[k])
    return keepX, keepG


c13_rewrite = wrap(_c13_rewrite)


def unit_scaler(ctx, params):
    """The packaged scaler: 1 / max_i |x_i - clip(x_i - g_i, l_i, u_i)| for all real x, g, finite box."""
    from . import c08
    n = params["n"]
    W = common.world()
    np = W.np
    utils = W.load("lbfgsb.utils")
    x, g, l, u = common.sym_point_and_box(ctx, np, n, ("ff",) * n)
    ctx.assume(c08.proj_grad_nonzero(n, x.data, g.data, l.data, u.data))
    try:
        val = utils.get_gradient_projection_unit_scaling(x, g, l, u)
    except (PathAbort, Unsupported):
        raise
    except Exception as e:
        ctx.check("no_exception", True, info=dict(exc=type(e).__name__, msg=str(e)[:200]))
        return dict(cls="exception")
    # oracle as an ite term
    best = None
    for i in range(n):
        v = x.data[i].z() - g.data[i].z()
        v = z3.If(v < l.data[i].z(), l.data[i].z(), z3.If(v > u.data[i].z(), u.data[i].z(), v))
        d = x.data[i].z() - v
        a = z3.If(d >= 0, d, -d)
        best = a if best is None else z3.If(a >= best, a, best)
    val = SReal.of(val)
    if val.is_special:
        ctx.check("C17.unit_scaler_is_inverse_projected_gradient_norm", True, info=dict(n=n, why="non-finite value"))
    else:
        ctx.check("C17.unit_scaler_is_inverse_projected_gradient_norm", val.z() * best != 1, info=dict(n=n))
    return dict(cls="ok")



def c14_kernels(ctx, params):
    """Real kernels of two different problems interleaved in one module namespace: P, then Q, then P again with the
    'previous iteration' arguments a real run would pass; same inputs must give the same outputs."""
    from . import c08
    W = common.world("c14k")
    np = W.np
    cauchy = W.load("lbfgsb.cauchy")
    sub = W.load("lbfgsb.subspacemin")
    bm = W.load("lbfgsb.bfgsmats")
    W.load("lbfgsb.linesearch")
    n = params.get("n", 2)
    before = _module_state(W)
    x, g, l, u = common.sym_point_and_box(ctx, np, n, params.get("pattern", ("ff",) * n))
    ctx.assume(c08.proj_grad_nonzero(n, x.data, g.data, l.data, u.data))
    mats = bm.LBFGSB_MATRICES(n)
    info = dict(params)

    def pipeline(it, free_old):
        xc, c = cauchy.get_cauchy_point(x, g, l, u, mats, it, -1, None)
        fv, Z, A = sub.get_freev(xc, l, u, it, free_old, -1, None)
        xb = sub.subspace_minimization(x, xc, fv, Z, A, c, g, l, u, mats)
        return xc, fv, Z, A, xb
    try:
        xc1, fv1, Z1, A1, xb1 = pipeline(1, np.array([], dtype=int))
        # another problem of a different size in between (all variables free)
        nq = n + 1
        xq = np.array([SReal.of(0)] * nq)
        gq = np.array([SReal.of(1)] * nq)
        lq = np.array([SReal.of(-4)] * nq)
        uq = np.array([SReal.of(4)] * nq)
        mq = bm.LBFGSB_MATRICES(nq)
        xcq, cq = cauchy.get_cauchy_point(xq, gq, lq, uq, mq, 1, -1, None)
        fq, Zq, Aq = sub.get_freev(xcq, lq, uq, 1, np.array([], dtype=int), -1, None)
        sub.subspace_minimization(xq, xcq, fq, Zq, Aq, cq, gq, lq, uq, mq)
        # P again, as its next iteration would call the kernels (previous free set = fv1)
        xc2, fv2, Z2, A2, xb2 = pipeline(2, fv1)
    except (PathAbort, Unsupported):
        raise
    except Exception as e:
        ctx.check("C14.interleaved_kernels_do_not_raise", True, info=dict(info, exc=type(e).__name__, msg=str(e)[:200]))
        return dict(cls="exception")
    bad = []
    if Z1.shape != Z2.shape or A1.shape != A2.shape or list(fv1.data) != list(fv2.data):
        ctx.check("C14.interleaved_kernels_same_outputs", True, info=dict(info, why="shapes/free sets differ: Z %s vs %s" % (Z1.shape, Z2.shape)))
    else:
        terms = [diff_lists(list(xc1.data), list(xc2.data)), diff_lists(list(xb1.data), list(xb2.data)),
                 diff_lists(list(Z1.data), list(Z2.data)), diff_lists(list(A1.data), list(A2.data))]
        ctx.check("C14.interleaved_kernels_same_outputs", zor(terms), info=info)
    after = _module_state(W)
    ctx.check("C14.no_module_level_state_changed", before != after, info=dict(info, changed=[k for k in set(before) | set(after) if before.get(k) != after.get(k)][:6]))
    return dict(cls="free=%d" % len(fv1.data))
