"""Relational orchestration harnesses: several symbolic runs of the real minimize_lbfgsb in ONE path
context with functional stubs, compared field by field (C06 restart, C07 callback checkpoint)."""
from __future__ import annotations

from fractions import Fraction

import z3

from symx.core import CTX, PathAbort, Unsupported
from symx.scalar import SReal, SBool, INF, NINF, ITE_MODE
from symx.arr import SArr
from . import common, orch
from .orch import Problem, Run, ST, eqv, zor, diff_lists, diff_snap, snapshot_state, _b
from .orch_single import MESSAGES, FUNCS  # noqa


def _setup(ctx, params):
    W = common.world("orch")
    orch.install(W)
    ST.reset()
    ST.ls_mode = params.get("ls_mode", "lean")
    ST.ls_tmax = params.get("ls_tmax", 1)
    ST.assume_new_trial = True
    orch.use_real_line_search(W, False)
    n = params.get("n", 1)
    prob = Problem(ctx, W, n, params.get("pattern", ("ff",) * n))
    gt = ctx.real("gtol")
    ctx.assume(gt >= 0, check=False)
    return W, prob, SReal(gt)


def _cfg(params, gtol, **over):
    cfg = dict(maxiter=params["K"], maxfun=params.get("maxfun", 40), maxls=params.get("maxls", 2), maxcor=params.get("maxcor", 2),
               ftol=0.0, gtol=gtol)
    cfg.update(over)
    return cfg


def _arr_list(a):
    return None if a is None else (a.shape, list(a.data))


def dir_state_diff(c1, c2):
    """violation term: two direction-stub calls received different states."""
    if c1["nm"] != c2["nm"]:
        return True
    terms = [diff_lists(c1["x"], c2["x"]), diff_lists(c1["grad"], c2["grad"])]
    if c1["nm"]:
        if c1["S"].shape != c2["S"].shape:
            return True
        terms.append(diff_lists(c1["S"].data, c2["S"].data))
        terms.append(diff_lists(c1["Y"].data, c2["Y"].data))
        terms.append(eqv(c1["theta"], c2["theta"]))
    return zor(terms)


def wrap(fn):
    def path(ctx, params):
        ITE_MODE[0] = True
        try:
            return fn(ctx, params)
        finally:
            ITE_MODE[0] = False
    return path


def _exc(ctx, run, info, what):
    e = run.exc
    import traceback
    tb = "".join(traceback.format_exception(type(e), e, e.__traceback__))[-600:]
    ctx.check("no_exception", True, info=dict(info, run=what, exc=type(e).__name__, msg=str(e)[:200], tb=tb))
    return dict(cls="exception:%s:%s" % (what, type(e).__name__))


# ---------------------------------------------------------------------------
# C06


def _c06(ctx, params):
    W, prob, gtol = _setup(ctx, params)
    K, k = params["K"], params["k"]
    maxcor2 = params.get("maxcor_restart", params.get("maxcor", 2))
    info = dict(params)
    U = Run(prob, "U").execute(_cfg(params, gtol))
    if U.exc is not None:
        return _exc(ctx, U, info, "U")
    A = Run(prob, "A").execute(_cfg(params, gtol, maxiter=k))
    if A.exc is not None:
        return _exc(ctx, A, info, "A")
    if A.result["message"] != MESSAGES["ITER"] or A.result["nit"] != k:
        return dict(cls="A-not-stopped-by-maxiter")
    snapA = snapshot_state(A.result)
    # restart that performs no iteration
    B0 = Run(prob, "B0").execute(_cfg(params, gtol, maxiter=k, maxcor=maxcor2, x0=A.result["x"], checkpoint=A.result))
    if B0.exc is not None:
        return _exc(ctx, B0, info, "B0")
    s0 = snapshot_state(B0.result)
    m_keep = min(snapA["sk"][0][0], maxcor2)
    n = prob.n
    exp_sk = snapA["sk"][1][(snapA["sk"][0][0] - m_keep) * n:]
    exp_yk = snapA["yk"][1][(snapA["yk"][0][0] - m_keep) * n:]
    if s0["sk"][0] != (m_keep, n):
        ctx.check("C06.noop_restart_keeps_pairs", True, info=dict(info, why="shape %s, expected %s" % (s0["sk"][0], (m_keep, n))))
    else:
        ctx.check("C06.noop_restart_keeps_pairs", zor([diff_lists(s0["sk"][1], exp_sk), diff_lists(s0["yk"][1], exp_yk)]), info=info)
    # restart that continues to K
    ck = A.result
    B = Run(prob, "B").execute(_cfg(params, gtol, maxcor=maxcor2, x0=ck["x"], checkpoint=ck))
    if B.exc is not None:
        return _exc(ctx, B, info, "B")
    last_update_stored = bool(A.updates) and A.updates[-1]
    if maxcor2 == params.get("maxcor", 2):
        # same memory size: the continuation must coincide with the uninterrupted run
        if len(U.dir_calls) > k:
            if not B.dir_calls:
                ctx.check("C06.next_iterate_state_equal", True, info=dict(info, why="restart performs no iteration although the uninterrupted run does"))
            else:
                ctx.check("C06.next_iterate_state_equal", dir_state_diff(U.dir_calls[k], B.dir_calls[0]), info=info)
        # the next iterate (one more iteration on both sides)
        U1 = Run(prob, "U1").execute(_cfg(params, gtol, maxiter=k + 1))
        B1 = Run(prob, "B1").execute(_cfg(params, gtol, maxiter=k + 1, x0=ck["x"], checkpoint=ck))
        if U1.exc is not None or B1.exc is not None:
            return _exc(ctx, U1 if U1.exc is not None else B1, info, "U1/B1")
        v, struct = diff_snap(snapshot_state(U1.result), snapshot_state(B1.result), fields=("x", "fun", "jac", "nit"))
        ctx.check("C06.next_iterate_equals_uninterrupted", v, info=dict(info, structural=struct))
        if last_update_stored:
            # (when the update at the split point was skipped by the curvature test, result.x is not the newest
            #  retained point and the checkpoint format cannot tell the restart so: the pairs formed LATER may
            #  differ; the property only speaks about the pairs carried over and the next iterate)
            # counters are not compared: a restart loses the wrapper's one-point memo and may legitimately
            # re-evaluate a point the uninterrupted run still had cached
            v, struct = diff_snap(snapshot_state(U.result), snapshot_state(B.result), fields=("x", "fun", "jac", "nit", "sk", "yk"))
            ctx.check("C06.restarted_equals_uninterrupted", v, info=dict(info, structural=struct))
    else:
        # reduced memory: the state handed to the next direction computation holds the most recent pairs
        if B.dir_calls and len(U.dir_calls) > k:
            cu, cb = U.dir_calls[k], B.dir_calls[0]
            terms = [diff_lists(cu["x"], cb["x"]), diff_lists(cu["grad"], cb["grad"])]
            if cb["nm"] != min(cu["nm"], maxcor2):
                terms.append(True)
            elif cb["nm"]:
                mu, mb = cu["S"].shape[1], cb["S"].shape[1]
                for i in range(n):
                    for j in range(mb):
                        terms.append(eqv(cb["S"][i, j], cu["S"][i, mu - mb + j]))
                        terms.append(eqv(cb["Y"][i, j], cu["Y"][i, mu - mb + j]))
            ctx.check("C06.reduced_memory_keeps_most_recent_pairs", zor(terms), info=info)
    # chain: A -> B(k2) -> C(K) for k < k2 < K
    k2 = params.get("k2")
    if k2 is not None and maxcor2 == params.get("maxcor", 2) and last_update_stored:
        Bm = Run(prob, "Bm").execute(_cfg(params, gtol, maxiter=k2, x0=ck["x"], checkpoint=ck))
        if Bm.exc is not None:
            return _exc(ctx, Bm, info, "Bm")
        if Bm.result["message"] == MESSAGES["ITER"] and Bm.updates and Bm.updates[-1]:
            C = Run(prob, "C").execute(_cfg(params, gtol, x0=Bm.result["x"], checkpoint=Bm.result))
            if C.exc is not None:
                return _exc(ctx, C, info, "C")
            v, struct = diff_snap(snapshot_state(U.result), snapshot_state(C.result), fields=("x", "fun", "jac", "nit", "sk", "yk"))
            ctx.check("C06.chain_of_restarts_equals_uninterrupted", v, info=dict(info, structural=struct))
    return dict(cls="U:%s/nit=%s B:%s/nit=%s" % (U.result["message"][:9], U.result["nit"], B.result["message"][:9], B.result["nit"]))


c06 = wrap(_c06)


# ---------------------------------------------------------------------------
# C07


def _c07(ctx, params):
    W, prob, gtol = _setup(ctx, params)
    K = params["K"]
    info = dict(params)
    N = Run(prob, "N").execute(_cfg(params, gtol))
    if N.exc is not None:
        return _exc(ctx, N, info, "N")
    C = Run(prob, "C").execute(_cfg(params, gtol, callback_kind="false"))
    if C.exc is not None:
        return _exc(ctx, C, info, "C")
    v, struct = diff_snap(snapshot_state(N.result), snapshot_state(C.result), fields=("x", "fun", "jac", "nfev", "njev", "nit", "sk", "yk", "message", "success"))
    ctx.check("C07.callback_returning_false_does_not_alter_the_run", v, info=dict(info, structural=struct))
    for idx, c in enumerate(C.cb, start=1):
        live = snapshot_state(c["state"])          # the state object as it is NOW, after the run finished
        at_call = c["snap"]
        # the iteration this callback reports (no callback is made for an iteration whose line search failed)
        k = at_call["nit"]
        if not isinstance(k, int) or k < idx or k > K:
            ctx.check("C07.state_nit_is_the_iteration_number", True, info=dict(info, call=idx, nit=k))
            continue
        v, struct = diff_snap(at_call, live, fields=("x", "fun", "jac", "nfev", "njev", "nit", "sk", "yk"))
        ctx.check("C07.state_unchanged_after_callback_returns", v, info=dict(info, k=k, structural=struct))
        M = Run(prob, "M%d" % k).execute(_cfg(params, gtol, maxiter=k))
        if M.exc is not None:
            return _exc(ctx, M, info, "M%d" % k)
        v, struct = diff_snap(at_call, snapshot_state(M.result))
        ctx.check("C07.state_equals_result_of_run_with_maxiter_k", v, info=dict(info, k=k, structural=struct))
        xk_bad = diff_lists(c["xk_snap"], at_call["x"])
        ctx.check("C07.xk_argument_equals_state_x", xk_bad, info=dict(info, k=k))
        if params.get("restart", True) and k < K:
            # crash after the run went on: restart from the retained state object (as it is now)
            st = c["state"]
            R1 = Run(prob, "R%d+1" % k).execute(_cfg(params, gtol, maxiter=k + 1, x0=st["x"], checkpoint=st))
            M1 = Run(prob, "M%d" % (k + 1)).execute(_cfg(params, gtol, maxiter=k + 1))
            if R1.exc is not None or M1.exc is not None:
                e = R1.exc if R1.exc is not None else M1.exc
                ctx.check("C07.restart_from_state_gives_the_next_iterate", True, info=dict(info, k=k, exc=type(e).__name__, msg=str(e)[:200]))
            else:
                v, struct = diff_snap(snapshot_state(M1.result), snapshot_state(R1.result), fields=("x", "fun", "jac", "nit"))
                ctx.check("C07.restart_from_state_gives_the_next_iterate", v, info=dict(info, k=k, structural=struct))
                stored = len(C.updates) >= idx and C.updates[idx - 1]
                if stored and K > k + 1:
                    R = Run(prob, "R%d" % k).execute(_cfg(params, gtol, x0=st["x"], checkpoint=st))
                    if R.exc is not None:
                        ctx.check("C07.restart_from_state_equals_uninterrupted", True, info=dict(info, k=k, exc=type(R.exc).__name__))
                    else:
                        v, struct = diff_snap(snapshot_state(N.result), snapshot_state(R.result), fields=("x", "fun", "jac", "nit", "sk", "yk"))
                        ctx.check("C07.restart_from_state_equals_uninterrupted", v, info=dict(info, k=k, structural=struct))
    return dict(cls="N:%s/nit=%s cb=%d" % (N.result["message"][:9], N.result["nit"], len(C.cb)))


c07 = wrap(_c07)
