"""C11 — line search: real line_search + max_allowed_steplength + SciPy's real DCSRCH (tail optionally cut)."""
from __future__ import annotations

from fractions import Fraction

import z3

from symx.core import CTX, PathAbort, Unsupported
from symx.scalar import SReal, INF, NINF, FP_MODE as FP_MODE_
from symx.oracle import UF
from . import common
from .c08 import ne, zor

FUNCS = ["lbfgsb.linesearch.line_search", "lbfgsb.linesearch.max_allowed_steplength"]


def _b(e):
    return e if isinstance(e, bool) else e.e


class CutTail(BaseException):
    pass


def install_cut(W, ctx):
    """Replace dcstep by a cut and wrap DCSRCH._iterate: the interval update is havocked, the new trial
    step is any value in [stpmin, stpmax] (the postcondition of np.clip at the end of the real tail)."""
    dcs = W.sp.optimize._dcsrch
    if not hasattr(dcs, "_symx_orig"):
        dcs._symx_orig = (dcs.dcstep, dcs.DCSRCH._iterate)
    orig_dcstep, orig_iter = dcs._symx_orig

    def cut(*a, **k):
        raise CutTail()

    def iterate(self, stp, f, g, task):
        try:
            return orig_iter(self, stp, f, g, task)
        except CutTail:
            c = CTX
            # the havoc is a FUNCTION of what the tail received (memoised per path on the syntactic inputs), so
            # that two runs of one path context fed the same values see the same trial sequence
            def k1(v):
                v = SReal.of(v)
                return ("z", v.z().sexpr()) if v.is_symbolic else ("c", repr(v.v))
            key = ("dcs_cut", k1(stp), k1(f), k1(g), k1(self.stpmin), k1(self.stpmax), k1(self.finit), k1(self.ginit))
            memo = c.cache.get(key)
            if memo is None:
                memo = dict(brackt=c.choose("brackt"), new=None, vals={})
                for nm in ("stx", "fx", "gx", "sty", "fy", "gy", "stmin", "stmax", "width", "width1"):
                    if FP_MODE_[0]:
                        from symx.scalar_fp import SFP
                        memo["vals"][nm] = SFP(c.fp("dcs_%s!%d" % (nm, len(c.names))))
                    else:
                        memo["vals"][nm] = SReal(c.fresh("dcs_" + nm))
                if FP_MODE_[0]:
                    from symx.scalar_fp import SFP
                    memo["new"] = SFP(c.fp("dcs_stp!%d" % len(c.names)))
                else:
                    memo["new"] = SReal(c.fresh("dcs_stp"))
                c.cache[key] = memo
                c.keep.extend([SReal.of(v).z() for v in (stp, f, g) if SReal.of(v).is_symbolic])
            self.brackt = memo["brackt"]
            for nm, v in memo["vals"].items():
                setattr(self, nm, v)
            new = memo["new"]
            lo, hi = SReal.of(self.stpmin), SReal.of(self.stpmax)
            r1, r2 = new >= lo, new <= hi
            c.assume(z3.And(r1 if isinstance(r1, bool) else r1.e, r2 if isinstance(r2, bool) else r2.e), contract="dcsrch_tail")
            return new, f, g, b"FG"
    dcs.dcstep = cut
    dcs.DCSRCH._iterate = iterate


def uninstall_cut(W):
    dcs = W.sp.optimize._dcsrch
    if hasattr(dcs, "_symx_orig"):
        dcs.dcstep, dcs.DCSRCH._iterate = dcs._symx_orig


class SF:
    """ScalarFunction stand-in: uninterpreted objective/gradient with memoisation like the real one."""

    def __init__(self, np, n, x0, f0, g0):
        self.np = np
        self.uf = UF("phi", 1 + n, known=[(x0, [f0] + list(g0))])
        self.n = n
        self.nfev = 0
        self.ngev = 0
        self.points = []
        self.last = None

    def _eval(self, x):
        pt = list(x.data)
        v = self.uf(pt)
        return pt, v

    def fun(self, x):
        pt, v = self._eval(x)
        self._count(pt, "f")
        return v[0]

    def grad(self, x):
        pt, v = self._eval(x)
        self._count(pt, "g")
        return self.np.array(v[1:])

    def fun_and_grad(self, x):
        pt, v = self._eval(x)
        self._count(pt, "f")
        self._count(pt, "g")
        return v[0], self.np.array(v[1:])

    def _count(self, pt, what):
        # one user evaluation per distinct consecutive point (the real wrapper memoises the last point)
        same = self.last is not None and all((a == b) is True for a, b in zip(self.last[0], pt))
        if not same:
            self.last = (pt, set())
            self.points.append(pt)
        if what not in self.last[1]:
            self.last[1].add(what)
            if what == "f":
                self.nfev += 1
            else:
                self.ngev += 1


def path(ctx, params):
    n, T = params["n"], params["T"]
    W = common.world()
    np = W.np
    ls = W.load("lbfgsb.linesearch")
    if params.get("cut", True):
        install_cut(W, ctx)
    else:
        uninstall_cut(W)
    pat = params["pattern"]
    above_iter = params["iter"]
    R = 2 ** 10
    x0, d, l, u, g0 = [], [], [], [], []
    for i in range(n):
        x = ctx.real("x%d" % i)
        dd = ctx.real("d%d" % i)
        g = ctx.real("g%d" % i)
        ctx.assume(z3.And(x >= -R, x <= R, dd >= -R, dd <= R, g >= -R, g <= R), check=False)
        x0.append(SReal(x)); d.append(SReal(dd)); g0.append(SReal(g))
        if pat[i][0] == "f":
            lo = ctx.real("l%d" % i)
            ctx.assume(z3.And(lo <= x, lo <= x + dd, lo >= -R), check=False)
            l.append(SReal(lo))
        else:
            l.append(SReal(NINF))
        if pat[i][1] == "f":
            hi = ctx.real("u%d" % i)
            ctx.assume(z3.And(x <= hi, x + dd <= hi, hi <= R), check=False)
            u.append(SReal(hi))
        else:
            u.append(SReal(INF))
    f0 = SReal(ctx.real("f0"))
    slope = sum((a * b for a, b in zip(g0, d)), SReal.of(0))
    ctx.assume(_b(slope < 0))
    is_boxed = all(k == "ff" for k in pat)
    sf = SF(np, n, x0, f0, g0)
    X0, D, L, U, G0 = np.array(x0), np.array(d), np.array(l), np.array(u), np.array(g0)
    info = dict(n=n, T=T, iter=above_iter, pattern=list(pat), cut=params.get("cut", True))
    try:
        if params.get("tol") == "sym":
            ft, gt = ctx.real("ftol"), ctx.real("gtol")
            ctx.assume(z3.And(ft >= 0, ft < gt, gt < 1), check=False)
            step = ls.line_search(X0, f0, G0, D, L, U, above_iter, 1e8, is_boxed, sf, SReal(ft), SReal(gt), 0.1, T, -1, None)
        else:
            step = ls.line_search(X0, f0, G0, D, L, U, above_iter, 1e8, is_boxed, sf, 1e-3, 0.9, 0.1, T, -1, None)
    except (PathAbort, Unsupported):
        raise
    except CutTail:
        raise Unsupported("CutTail escaped")
    except Exception as e:
        import traceback
        ctx.check("no_exception", True, info=dict(info, exc=type(e).__name__, msg=str(e)[:200], tb=traceback.format_exc()[-400:]))
        return dict(cls="exception:" + type(e).__name__)
    nev = sf.nfev
    ctx.check("evaluations_within_budget", nev > T, info=dict(info, evaluations=nev))
    # every evaluated point inside the box (exact reals)
    outside = []
    for pt in sf.points:
        for i in range(n):
            outside.append(_b(pt[i] < l[i]))
            outside.append(_b(pt[i] > u[i]))
    ctx.check("trial_points_in_box", zor(outside), info=info)
    if step is None:
        return dict(cls="None/%d" % nev)
    step = SReal.of(step)
    if step.is_special:
        ctx.check("step_finite_positive", True, info=info)
        return dict(cls="special-step")
    bad = [_b(step <= 0)]
    for i in range(n):
        p = x0[i] + step * d[i]
        bad.append(_b(p < l[i]))
        bad.append(_b(p > u[i]))
    ctx.check("step_positive_and_feasible", zor(bad), info=info)
    pt = [x0[i] + step * d[i] for i in range(n)]
    v = sf.uf.value_at(pt)
    if v is None:
        # the returned step was never evaluated: its value is arbitrary
        ctx.check("returned_step_was_evaluated", True, info=info)
        return dict(cls="unevaluated-step")
    ctx.check("strictly_downhill", _b(v[0] >= f0), info=dict(info, evaluations=nev))
    return dict(cls="step/%d" % nev)


def real_case(params, model):
    """Concrete scenario for replay/realrun.py: the model's box/direction/slope/trial values + a small battery."""
    n, pat = params["n"], params["pattern"]
    f = common.fr_to_float
    x0 = [f(model.get("x%d" % i, "0")) for i in range(n)]
    d = [f(model.get("d%d" % i, "0")) for i in range(n)]
    g0 = [f(model.get("g%d" % i, "0")) for i in range(n)]
    l = [f(model["l%d" % i]) if pat[i][0] == "f" else float("-inf") for i in range(n)]
    u = [f(model["u%d" % i]) if pat[i][1] == "f" else float("inf") for i in range(n)]
    f0 = f(model.get("f0", "0"))
    slope = sum(a * b for a, b in zip(g0, d))
    dd = sum(a * a for a in d)
    # trial values chosen by the solver: phi<k>_0 = f, phi<k>_(1+i) = gradient components, in call order
    nodes = [(0.0, f0, slope)]
    ks = sorted({int(k[3:].split("_")[0]) for k in model if k.startswith("phi") and "_" in k})
    stp0 = 1.0 if (params["iter"] > 0 or all(p == "ff" for p in pat)) else min(1.0 / dd ** 0.5, 1.0)
    alphas = {}
    for k in model:
        if k.startswith("dcs_stp"):
            alphas[int(k.split("!")[1])] = f(model[k])
    trial_alphas = [stp0] + [alphas[j] for j in sorted(alphas)]
    for idx, k in enumerate(ks):
        fk = None
        gk = [0.0] * n
        for name, val in model.items():
            if name.startswith("phi%d_" % k):
                j = int(name.split("_")[1].split("!")[0])
                if j == 0:
                    fk = f(val)
                else:
                    gk[j - 1] = f(val)
        if fk is None or idx >= len(trial_alphas):
            continue
        nodes.append((trial_alphas[idx], fk, sum(a * b for a, b in zip(gk, d))))
    fns = [dict(type="hermite", nodes=nodes),
           dict(type="steep_quadratic", slope=slope, f0=f0, c=10.0),
           dict(type="steep_quadratic", slope=slope, f0=f0, c=0.6),
           dict(type="oscillating", slope=slope, f0=f0),
           dict(type="bump", slope=slope, f0=f0)]
    case = dict(kind="linesearch", x0=x0, d=d, l=l, u=u, iter=params["iter"], T=params["T"],
                is_boxed=all(p == "ff" for p in pat), functions=fns)
    if params.get("tol") == "sym":
        case["ftol"] = f(model.get("ftol", "1/1000"))
        case["gtol"] = f(model.get("gtol", "9/10"))
    return case
