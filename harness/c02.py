"""C02 — bit-precise (IEEE binary64, QF_FP) execution of the real kernels that produce the points at which the
objective is evaluated / that are reported: they must lie in the box with EXACT float comparisons."""
from __future__ import annotations

import z3

from symx.core import CTX, PathAbort, Unsupported, FP_SOLVER
from symx.scalar import FP_MODE, ITE_MODE, SBool
from symx.scalar_fp import SFP, fpval
from . import common

FUNCS = ["lbfgsb.linesearch.line_search", "lbfgsb.linesearch.max_allowed_steplength", "lbfgsb.subspacemin.subspace_minimization",
         "lbfgsb.subspacemin.get_freev", "lbfgsb.cauchy.get_cauchy_point", "lbfgsb.base.clip2bounds", "lbfgsb.main.minimize_lbfgsb (iterate update expression)"]

BIG = 2.0 ** 10
TINY = 2.0 ** -20


def fpmode(fn):
    def path(ctx, params):
        FP_MODE[0] = True
        FP_SOLVER[0] = True
        ITE_MODE[0] = bool(params.get("ite", True))
        try:
            return fn(ctx, params)
        finally:
            FP_MODE[0] = False
            FP_SOLVER[0] = False
            ITE_MODE[0] = False
    return path


def finite(ctx, name, lo=None, big=BIG):
    v = SFP(ctx.fp(name))
    c = [z3.Not(z3.fpIsNaN(v.z())), z3.fpLEQ(z3.fpAbs(v.z()), fpval(big))]
    if lo is not None:
        c.append(z3.fpGEQ(z3.fpAbs(v.z()), fpval(lo)))
    ctx.assume(z3.And(*c), check=False)
    return v


def _z(b):
    return z3.BoolVal(b) if isinstance(b, bool) else b.e


def outside(p, l, u):
    """violation term: p < l or p > u (IEEE comparisons)"""
    return z3.Or(_z(p < l), _z(p > u))


def box(ctx, np, n, pattern, prefix=""):
    xs, ls, us = [], [], []
    for i in range(n):
        x = finite(ctx, "%sx%d" % (prefix, i))
        xs.append(x)
        if pattern[i][0] == "f":
            l = finite(ctx, "%sl%d" % (prefix, i))
            ctx.assume(_z(l <= x), check=False)
            ls.append(l)
        else:
            ls.append(SFP(float("-inf")))
        if pattern[i][1] == "f":
            u = finite(ctx, "%su%d" % (prefix, i))
            ctx.assume(_z(x <= u), check=False)
            us.append(u)
        else:
            us.append(SFP(float("inf")))
    return xs, ls, us


# ---------------------------------------------------------------------------


def fragment_update(W, x, steplength, d, lb, ub):
    """Execute the iterate-update statements of the real main.py (from the failed-line-search test to the
    re-evaluation sf.fun_and_grad(x)) under the shim."""
    import ast
    main = W.load("lbfgsb.main")
    path = main.__file__
    src = open(path).read()
    fn = next(nd for nd in ast.parse(src).body if isinstance(nd, ast.FunctionDef) and nd.name == "minimize_lbfgsb")
    frag = None
    for node in ast.walk(fn):
        if isinstance(node, ast.If) and isinstance(node.test, ast.Compare) and getattr(node.test.left, "id", None) == "steplength":
            frag = []
            for st in node.orelse:
                if isinstance(st, ast.Assign) and isinstance(st.value, ast.Call) and "fun_and_grad" in ast.unparse(st.value):
                    break
                frag.append(st)
            break
    if not frag:
        raise Unsupported("iterate-update fragment not found in main.py")
    ns = dict(x=x, steplength=steplength, d=d, lb=lb, ub=ub, np=W.np)
    exec(compile(ast.Module(body=frag, type_ignores=[]), path, "exec"), ns)
    return ns["x"]


def _line_search(ctx, params):
    """Real line_search (DCSRCH tail cut) with an uninterpreted objective; the direction comes, as in the solver,
    from a point xbar inside the box: d = xbar - x0 (rounded)."""
    from .c11 import install_cut, SF
    n, T = params.get("n", 1), params["T"]
    W = common.world("fp")
    np = W.np
    ls = W.load("lbfgsb.linesearch")
    install_cut(W, ctx)
    pat = params["pattern"]
    xs, lo, up = box(ctx, np, n, pat)
    d, g0 = [], []
    for i in range(n):
        xb = finite(ctx, "xbar%d" % i)
        if not lo[i].is_special:
            ctx.assume(_z(lo[i] <= xb), check=False)
        if not up[i].is_special:
            ctx.assume(_z(xb <= up[i]), check=False)
        di = xb - xs[i]
        ctx.assume(z3.Or(z3.fpIsZero(di.z()), z3.fpGEQ(z3.fpAbs(di.z()), fpval(TINY))), check=False)
        d.append(di)
        g0.append(finite(ctx, "g%d" % i))
    f0 = finite(ctx, "f0")
    X0, D, L, U, G0 = np.array(xs), np.array(d), np.array(lo), np.array(up), np.array(g0)
    slope = G0.dot(D)
    ctx.assume(_z(slope < 0))
    sf = SF(np, n, xs, f0, g0)
    info = dict(params)
    try:
        step = ls.line_search(X0, f0, G0, D, L, U, params["iter"], 1e8, all(k == "ff" for k in pat), sf, 1e-3, 0.9, 0.1, T, -1, None)
    except (PathAbort, Unsupported):
        raise
    except Exception as e:
        ctx.check("C02.no_exception", True, info=dict(info, exc=type(e).__name__, msg=str(e)[:200]))
        return dict(cls="exception")
    ctx._ensure_model()
    terms = []
    for pt in sf.points:
        for i in range(n):
            terms.append(outside(pt[i], lo[i], up[i]))
    ctx.check("C02.line_search_trial_points_in_box", z3.Or(*terms) if terms else False, info=info, timeout_ms=params.get("qt", 120000))
    if step is not None:
        # the accepted iterate: the update statements of the REAL main.py, executed on these values
        Xn = fragment_update(W, X0.copy(), step, D, L, U)
        t2 = [outside(Xn.data[i], lo[i], up[i]) for i in range(n)]
        ctx.check("C02.updated_iterate_in_box", z3.Or(*t2), info=info, timeout_ms=params.get("qt", 120000))
    return dict(cls="step" if step is not None else "None")


line_search = fpmode(_line_search)


def _subspace(ctx, params):
    n = params.get("n", 1)
    W = common.world("fp")
    np = W.np
    sub = W.load("lbfgsb.subspacemin")
    bm = W.load("lbfgsb.bfgsmats")
    pat = params["pattern"]
    xs, lo, up = box(ctx, np, n, pat)
    xc, g = [], []
    for i in range(n):
        c = finite(ctx, "xc%d" % i)
        if not lo[i].is_special:
            ctx.assume(_z(lo[i] <= c), check=False)
        if not up[i].is_special:
            ctx.assume(_z(c <= up[i]), check=False)
        xc.append(c)
        g.append(finite(ctx, "g%d" % i, lo=TINY))
    X, XC, G, L, U = np.array(xs), np.array(xc), np.array(g), np.array(lo), np.array(up)
    mats = bm.LBFGSB_MATRICES(n)
    info = dict(params)
    try:
        fv, Z, A = sub.get_freev(XC, L, U, 0, None, -1, None)
        xbar = sub.subspace_minimization(X, XC, fv, Z, A, np.zeros(1), G, L, U, mats)
    except (PathAbort, Unsupported):
        raise
    except Exception as e:
        ctx.check("C02.no_exception", True, info=dict(info, exc=type(e).__name__, msg=str(e)[:200]))
        return dict(cls="exception")
    ctx._ensure_model()
    terms = [outside(xbar.data[i], lo[i], up[i]) for i in range(n)]
    ctx.check("C02.subspace_point_in_box", z3.Or(*terms), info=info, timeout_ms=params.get("qt", 120000))
    return dict(cls="free=%d" % len(fv.data))


subspace = fpmode(_subspace)


def _cauchy(ctx, params):
    n = params.get("n", 1)
    W = common.world("fp")
    np = W.np
    cauchy = W.load("lbfgsb.cauchy")
    bm = W.load("lbfgsb.bfgsmats")
    pat = params["pattern"]
    xs, lo, up = box(ctx, np, n, pat)
    g = [finite(ctx, "g%d" % i) for i in range(n)]
    for gi in g:
        ctx.assume(z3.Or(z3.fpIsZero(gi.z()), z3.fpGEQ(z3.fpAbs(gi.z()), fpval(TINY))), check=False)
    ctx.assume(z3.Or(*[z3.Not(z3.fpIsZero(gi.z())) for gi in g]), check=False)
    X, G, L, U = np.array(xs), np.array(g), np.array(lo), np.array(up)
    mats = bm.LBFGSB_MATRICES(n)
    info = dict(params)
    try:
        xcp, c = cauchy.get_cauchy_point(X, G, L, U, mats, 0, -1, None)
    except (PathAbort, Unsupported):
        raise
    except Exception as e:
        ctx.check("C02.no_exception", True, info=dict(info, exc=type(e).__name__, msg=str(e)[:200]))
        return dict(cls="exception")
    ctx._ensure_model()
    terms = [outside(xcp.data[i], lo[i], up[i]) for i in range(n)]
    ctx.check("C02.cauchy_point_in_box", z3.Or(*terms), info=info, timeout_ms=params.get("qt", 120000))
    return dict(cls="ok")


cauchy = fpmode(_cauchy)


def _clip(ctx, params):
    n = params.get("n", 2)
    W = common.world("fp")
    np = W.np
    base = W.load("lbfgsb.base")
    lo, up, xs = [], [], []
    for i in range(n):
        x = finite(ctx, "x%d" % i)
        l = finite(ctx, "l%d" % i)
        u = finite(ctx, "u%d" % i)
        ctx.assume(_z(l <= u), check=False)
        xs.append(x); lo.append(l); up.append(u)
    y = base.clip2bounds(np.array(xs), np.array(lo), np.array(up))
    terms = [outside(y.data[i], lo[i], up[i]) for i in range(n)]
    fixed = [z3.And(_z(lo[i] == up[i]), z3.Not(_z(y.data[i] == lo[i]))) for i in range(n)]
    ctx.check("C02.clipped_start_in_box", z3.Or(*(terms + fixed)), info=dict(params))
    return dict(cls="ok")


clip = fpmode(_clip)


def real_case(params, model, kind):
    n = params.get("n", 1)
    pat = params.get("pattern", ("ff",) * n)

    def hx(name, default=0.0):
        v = model.get(name)
        if isinstance(v, str) and "0x" in v:
            return float.fromhex(v)
        try:
            return float(v) if v is not None else default
        except ValueError:
            return default
    c = dict(kind=kind, n=n, x=[hx("x%d" % i) for i in range(n)],
             l=[hx("l%d" % i) if pat[i][0] == "f" else float("-inf") for i in range(n)],
             u=[hx("u%d" % i) if pat[i][1] == "f" else float("inf") for i in range(n)],
             g=[hx("g%d" % i) for i in range(n)])
    if kind == "fp_linesearch":
        c["xbar"] = [hx("xbar%d" % i) for i in range(n)]
        c["iter"] = params["iter"]
        c["T"] = params["T"]
    if kind == "fp_subspace":
        c["xc"] = [hx("xc%d" % i) for i in range(n)]
    return c
