"""C10 — limited-memory matrices: real update_lbfgs_matrices / update_X_and_G / form_invMfactors / bmv.

step:    one update from an arbitrary valid memory state (deque discipline, curvature test, rejection is a no-op)
compact: after the real update, theta*v - W*bmv(invMfactors, W'v) equals the dense BFGS recursion; SPD; secant.
"""
from __future__ import annotations

from collections import deque
from fractions import Fraction

import z3

from symx.core import CTX, PathAbort
from symx.scalar import SReal
from . import common
from .c08 import ne, zor

FUNCS = ["lbfgsb.bfgsmats.update_lbfgs_matrices", "lbfgsb.bfgsmats.update_X_and_G", "lbfgsb.bfgsmats.is_update_X_and_G",
         "lbfgsb.bfgsmats.form_invMfactors", "lbfgsb.bfgsmats.bmv", "lbfgsb.bfgsmats.LBFGSB_MATRICES"]

EPS = Fraction("2.2e-16")
CUR_EPS = [EPS]     # the curvature threshold of the current job (params["eps"], default the package's default)


def _b(e):
    return e if isinstance(e, bool) else e.e


def dot(a, b):
    r = SReal.of(0)
    for x, y in zip(a, b):
        r = r + x * y
    return r


def curvature_ok(xa, ga, xb, gb):
    """z3 term: pair (xb - xa, gb - ga) satisfies s.y > eps*y.y"""
    s = [q - p for p, q in zip(xa, xb)]
    y = [q - p for p, q in zip(ga, gb)]
    r = dot(s, y) > SReal.of(CUR_EPS[0]) * dot(y, y)
    return _b(r)


def sym_vec(ctx, np, name, n, mag=64):
    out = []
    for i in range(n):
        v = ctx.real("%s_%d" % (name, i))
        ctx.assume(z3.And(v >= -mag, v <= mag), check=False)
        out.append(SReal(v))
    return out


def step(ctx, params):
    """One real update from an arbitrary valid state."""
    n, maxcor, length = params["n"], params["maxcor"], params["len"]
    CUR_EPS[0] = Fraction(params["eps"]) if params.get("eps") is not None else EPS
    W = common.world()
    np = W.np
    bm = W.load("lbfgsb.bfgsmats")
    tokens = []

    def stub_form(theta, STS, L, D):
        t = (np.zeros([2, 2]), np.zeros([2, 2]))
        tokens.append(t)
        return t
    orig = bm.form_invMfactors
    bm.form_invMfactors = stub_form
    try:
        Xs = [sym_vec(ctx, np, "X%d" % k, n) for k in range(length)]
        Gs = [sym_vec(ctx, np, "G%d" % k, n) for k in range(length)]
        for k in range(length - 1):
            ctx.assume(curvature_ok(Xs[k], Gs[k], Xs[k + 1], Gs[k + 1]), check=False)
        xk = sym_vec(ctx, np, "xk", n)
        gk = sym_vec(ctx, np, "gk", n)
        Xarr = [np.array(v) for v in Xs]
        Garr = [np.array(v) for v in Gs]
        X, G = deque(Xarr), deque(Garr)
        mats = bm.LBFGSB_MATRICES(n)
        before = {f: getattr(mats, f) for f in mats.__slots__}
        xk_a, gk_a = np.array(xk), np.array(gk)
        force = bool(params.get("force"))
        ret = bm.update_lbfgs_matrices(xk_a, gk_a, X, G, maxcor, mats, force, float(CUR_EPS[0]))
        accepted_spec = curvature_ok(Xs[-1], Gs[-1], xk, gk)
        was_accepted = len(X) > 0 and X[-1] is xk_a
        info = dict(n=n, maxcor=maxcor, len=length)
        # accepted <=> curvature test
        ctx.check("accepted_iff_curvature", z3.Not(accepted_spec) if was_accepted else accepted_spec, info=info)
        problems = []
        if was_accepted:
            if not (X[-1] is xk_a and G[-1] is gk_a):
                problems.append("new pair not appended at the right end")
            exp_len = min(length + 1, maxcor + 1)
            if len(X) != exp_len or len(G) != exp_len:
                problems.append("length %d/%d after accepted update, expected %d" % (len(X), len(G), exp_len))
            # survivors are the most recent old ones, in order
            keep = exp_len - 1
            old = Xarr[length - keep:] if keep else []
            oldg = Garr[length - keep:] if keep else []
            if not all(a is b for a, b in zip(list(X)[:-1], old)) or not all(a is b for a, b in zip(list(G)[:-1], oldg)):
                problems.append("survivors are not the most recent stored points in order")
            # matrices rebuilt from the deque
            S = ret.S
            if S.shape != (n, exp_len - 1):
                problems.append("S has shape %s, expected %s" % (S.shape, (n, exp_len - 1)))
        else:
            if len(X) != length or len(G) != length or not all(a is b for a, b in zip(X, Xarr)) or not all(a is b for a, b in zip(G, Garr)):
                problems.append("rejected update changed the deques")
            if not force:
                for f in mats.__slots__:
                    if getattr(ret, f) is not before[f]:
                        problems.append("rejected update changed mats.%s" % f)
        if ret is not mats:
            problems.append("a different matrices object was returned")
        ctx.check("deque_discipline", bool(problems), info=dict(info, problems=problems))
        # representation invariant preserved: every stored pair satisfies the curvature test
        viol = []
        XL, GL = list(X), list(G)
        for k in range(len(XL) - 1):
            viol.append(z3.Not(curvature_ok(XL[k].data, GL[k].data, XL[k + 1].data, GL[k + 1].data)))
        ctx.check("stored_pairs_satisfy_curvature", zor(viol), info=info)
        ctx.check("at_most_maxcor_pairs", len(X) - 1 > maxcor, info=info)
        if force and not was_accepted and length >= 2:
            # forced rebuild after a rejected candidate: the matrices describe the STORED pairs only
            XL2, GL2 = list(X), list(G)
            s2 = [a - b for a, b in zip(XL2[-1].data, XL2[-2].data)]
            y2 = [a - b for a, b in zip(GL2[-1].data, GL2[-2].data)]
            ctx.check("theta_is_yy_over_sy", ne(SReal.of(ret.theta), dot(y2, y2) / dot(s2, y2)), info=dict(info, forced=True))
            sv = []
            if ret.S.shape != (n, length - 1):
                sv.append(True)
            else:
                for k in range(length - 1):
                    for i in range(n):
                        sv.append(ne(ret.S[i, k], XL2[k + 1].data[i] - XL2[k].data[i]))
                        sv.append(ne(ret.Y[i, k], GL2[k + 1].data[i] - GL2[k].data[i]))
            ctx.check("S_Y_are_deque_differences", zor(sv), info=dict(info, forced=True))
        if was_accepted:
            # theta of the newest pair
            s = [a - b for a, b in zip(xk, Xs[-1])]
            y = [a - b for a, b in zip(gk, Gs[-1])]
            ctx.check("theta_is_yy_over_sy", ne(SReal.of(ret.theta), dot(y, y) / dot(s, y)), info=info)
            # S, Y columns are the differences of the deque, oldest first
            sv = []
            for k in range(len(XL) - 1):
                for i in range(n):
                    sv.append(ne(ret.S[i, k], XL[k + 1].data[i] - XL[k].data[i]))
                    sv.append(ne(ret.Y[i, k], GL[k + 1].data[i] - GL[k].data[i]))
            ctx.check("S_Y_are_deque_differences", zor(sv), info=info)
        return dict(cls="accepted" if was_accepted else "rejected")
    finally:
        bm.form_invMfactors = orig


def dense_recursion(n, pairs, theta):
    """BFGS recursion over SReal terms from theta*I."""
    B = [[theta if i == j else SReal.of(0) for j in range(n)] for i in range(n)]
    for s, y in pairs:
        Bs = [dot(B[i], s) for i in range(n)]
        sBs = dot(s, Bs)
        ys = dot(y, s)
        B = [[B[i][j] - Bs[i] * Bs[j] / sBs + y[i] * y[j] / ys for j in range(n)] for i in range(n)]
    return B


def compact(ctx, params):
    """Compact representation == dense BFGS matrix; SPD; secant."""
    n, m, nsym = params["n"], params["m"], params.get("nsym", params["m"])
    W = common.world()
    np = W.np
    bm = W.load("lbfgsb.bfgsmats")
    from symx import spshim
    spshim.TRUST_PD[0] = bool(params.get("trust_pd"))
    try:
        return _compact(ctx, params, W, np, bm, n, m, nsym)
    finally:
        spshim.TRUST_PD[0] = False


def _compact(ctx, params, W, np, bm, n, m, nsym):
    # older pairs concrete (memory instance), the newest `nsym` pairs symbolic
    S0, Y0 = common.memory_instance(n, m - nsym, params.get("seed", 0), params.get("which", 1)) if m - nsym > 0 else ([], [])
    mats = bm.LBFGSB_MATRICES(n)
    x = [SReal.of(0)] * n
    g = [SReal.of(0)] * n
    X = deque([np.array(x)])
    G = deque([np.array(g)])
    pairs = []
    for s, y in zip(S0, Y0):
        s = [SReal.of(v) for v in s]
        y = [SReal.of(v) for v in y]
        pairs.append((s, y))
    A = None
    if params.get("ylin"):
        import random
        A = common.spd_matrix(n, random.Random(777 + params.get("seed", 0) + 31 * n), 1)
    for k in range(nsym):
        s = sym_vec(ctx, np, "s%d" % k, n, 16)
        if A is not None:
            y = [dot([SReal.of(a) for a in A[i]], s) for i in range(n)]
        else:
            y = sym_vec(ctx, np, "y%d" % k, n, 16)
        # curvature with a margin that keeps eps*y.y irrelevant: s.y >= 2^-6 (and hence > eps*y.y for |y|<=16)
        ctx.assume(_b(dot(s, y) >= SReal.of(Fraction(1, 64))), check=False)
        pairs.append((s, y))
    for s, y in pairs:
        x = [a + b for a, b in zip(x, s)]
        g = [a + b for a, b in zip(g, y)]
        nx, ng = np.array(list(x)), np.array(list(g))
        before = len(X)
        try:
            mats = bm.update_lbfgs_matrices(nx, ng, X, G, m, mats, False, float(EPS))
        except PathAbort:
            raise
        except Exception as e:
            ctx.check("no_exception", True, info=dict(n=n, m=m, exc=type(e).__name__, msg=str(e)[:200]))
            return dict(cls="exception:" + type(e).__name__)
        if len(X) != before + 1:
            ctx.check("valid_pair_accepted", True, info=dict(n=n, m=m))
            return dict(cls="rejected-valid-pair")
    info = dict(n=n, m=m, nsym=nsym)
    s_new, y_new = pairs[-1]
    theta = SReal.of(mats.theta)
    ctx.check("theta_is_yy_over_sy", ne(theta, dot(y_new, y_new) / dot(s_new, y_new)), info=info)
    # B_impl columns through the code's own products
    cols = []
    try:
        for j in range(n):
            e = np.zeros(n)
            e[j] = 1.0
            v = theta * e - mats.W @ bm.bmv(mats.invMfactors, mats.W.T @ e)
            cols.append(list(v.data))
    except PathAbort:
        raise
    except Exception as e:
        ctx.check("no_exception", True, info=dict(info, exc=type(e).__name__, msg=str(e)[:200]))
        return dict(cls="exception:" + type(e).__name__)
    Bimpl = [[cols[j][i] for j in range(n)] for i in range(n)]
    Bref = dense_recursion(n, pairs, dot(y_new, y_new) / dot(s_new, y_new))
    ctx.check("compact_equals_dense_bfgs", zor(ne(Bimpl[i][j], Bref[i][j]) for i in range(n) for j in range(n)), info=info)
    ctx.check("symmetric", zor(ne(Bimpl[i][j], Bimpl[j][i]) for i in range(n) for j in range(i)), info=info)
    # leading principal minors > 0
    minors = [Bimpl[0][0]]
    if n >= 2:
        minors.append(Bimpl[0][0] * Bimpl[1][1] - Bimpl[0][1] * Bimpl[1][0])
    if n >= 3:
        a = Bimpl
        minors.append(a[0][0] * (a[1][1] * a[2][2] - a[1][2] * a[2][1]) - a[0][1] * (a[1][0] * a[2][2] - a[1][2] * a[2][0])
                      + a[0][2] * (a[1][0] * a[2][1] - a[1][1] * a[2][0]))
    if not params.get("trust_pd"):
        ctx.check("positive_definite", zor(_b(mn <= 0) for mn in minors), info=info)
    Bs = [dot(Bimpl[i], s_new) for i in range(n)]
    ctx.check("secant_equation", zor(ne(Bs[i], y_new[i]) for i in range(n)), info=info)
    ctx._ensure_model()
    out = None
    if ctx.model_valid:
        try:
            out = [[Bimpl[i][j].eval_float(ctx) for j in range(n)] for i in range(n)]
        except Exception:
            out = None
    return dict(cls="ok", out=out)


def real_case(params, witness):
    f = common.fr_to_float
    if "len" in params:
        n, L = params["n"], params["len"]
        return dict(kind="matstep", n=n, maxcor=params["maxcor"], eps=float(Fraction(params["eps"])) if params.get("eps") is not None else float(EPS),
                    X=[[f(witness.get("X%d_%d" % (k, i), "0")) for i in range(n)] for k in range(L)],
                    G=[[f(witness.get("G%d_%d" % (k, i), "0")) for i in range(n)] for k in range(L)],
                    xk=[f(witness.get("xk_%d" % i, "0")) for i in range(n)],
                    gk=[f(witness.get("gk_%d" % i, "0")) for i in range(n)], force=bool(params.get("force")))
    n, m, nsym = params["n"], params["m"], params.get("nsym", params["m"])
    S0, Y0 = common.memory_instance(n, m - nsym, params.get("seed", 0), params.get("which", 1)) if m - nsym > 0 else ([], [])
    f = common.fr_to_float
    S = [[float(v) for v in r] for r in S0]
    Y = [[float(v) for v in r] for r in Y0]
    A = None
    if params.get("ylin"):
        import random
        A = common.spd_matrix(n, random.Random(777 + params.get("seed", 0) + 31 * n), 1)
    for k in range(nsym):
        sv = [f(witness.get("s%d_%d" % (k, i), "0")) for i in range(n)]
        S.append(sv)
        if A is not None:
            Y.append([sum(float(A[i][j]) * sv[j] for j in range(n)) for i in range(n)])
        else:
            Y.append([f(witness.get("y%d_%d" % (k, i), "0")) for i in range(n)])
    return dict(kind="matrices", n=n, S=S, Y=Y, maxcor=m)
