"""C18 (ii) — extract_hess_inv_diag == diag(todense()) on SciPy's real LbfgsInvHessProduct source, symbolic pairs."""
from __future__ import annotations

from fractions import Fraction

import z3

from symx.core import CTX, PathAbort, Unsupported
from symx.scalar import SReal
from . import common
from .c08 import ne, zor
from .c10 import sym_vec, dot, _b

FUNCS = ["lbfgsb.utils.extract_hess_inv_diag"]


def path(ctx, params):
    n, m, nsym = params["n"], params["m"], params.get("nsym", params["m"])
    W = common.world()
    np = W.np
    utils = W.load("lbfgsb.utils")
    S0, Y0 = common.memory_instance(n, m - nsym, params.get("seed", 0), params.get("which", 1)) if m - nsym > 0 else ([], [])
    S = [[SReal.of(v) for v in r] for r in S0]
    Y = [[SReal.of(v) for v in r] for r in Y0]
    for k in range(nsym):
        s = sym_vec(ctx, np, "s%d" % k, n, 16)
        y = sym_vec(ctx, np, "y%d" % k, n, 16)
        ctx.assume(_b(dot(s, y) >= SReal.of(Fraction(1, 64))), check=False)
        S.append(s)
        Y.append(y)
    sk = np.array(S).reshape(m, n)
    yk = np.array(Y).reshape(m, n)
    info = dict(n=n, m=m, nsym=nsym)
    try:
        H = W.sp.optimize.LbfgsInvHessProduct(sk, yk)
        diag = utils.extract_hess_inv_diag(H)
        dense = H.todense()
    except (PathAbort, Unsupported):
        raise
    except Exception as e:
        ctx.check("no_exception", True, info=dict(info, exc=type(e).__name__, msg=str(e)[:200]))
        return dict(cls="exception:" + type(e).__name__)
    bad_shape = getattr(diag, "shape", None) != (n,)
    ctx.check("diag_shape", bad_shape, info=info)
    if bad_shape:
        return dict(cls="shape")
    ctx.check("diag_equals_dense_diagonal", zor(ne(SReal.of(diag.data[i]), SReal.of(dense[i, i])) for i in range(n)), info=info)
    # independent oracle: H = inverse BFGS recursion from the identity, H <- (I - r s y')H(I - r y s') + r s s'
    Hm = [[SReal.of(int(i == j)) for j in range(n)] for i in range(n)]
    for s, y in zip(S, Y):
        r = SReal.of(1) / dot(s, y)
        A = [[SReal.of(int(i == j)) - r * s[i] * y[j] for j in range(n)] for i in range(n)]
        AH = [[dot(A[i], [Hm[k][j] for k in range(n)]) for j in range(n)] for i in range(n)]
        Hm = [[dot(AH[i], [A[j][k] for k in range(n)]) + r * s[i] * s[j] for j in range(n)] for i in range(n)]
    ctx.check("diag_equals_inverse_bfgs_recursion", zor(ne(SReal.of(diag.data[i]), Hm[i][i]) for i in range(n)), info=info)
    ctx._ensure_model()
    out = None
    if ctx.model_valid:
        try:
            out = [SReal.of(d).eval_float(ctx) for d in diag.data]
        except Exception:
            out = None
    return dict(cls="ok", out=out)


def real_case(params, witness):
    n, m, nsym = params["n"], params["m"], params.get("nsym", params["m"])
    S0, Y0 = common.memory_instance(n, m - nsym, params.get("seed", 0), params.get("which", 1)) if m - nsym > 0 else ([], [])
    f = common.fr_to_float
    S = [[float(v) for v in r] for r in S0]
    Y = [[float(v) for v in r] for r in Y0]
    for k in range(nsym):
        S.append([f(witness.get("s%d_%d" % (k, i), "0")) for i in range(n)])
        Y.append([f(witness.get("y%d_%d" % (k, i), "0")) for i in range(n)])
    return dict(kind="hessdiag", n=n, S=S, Y=Y)
