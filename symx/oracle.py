"""Uninterpreted user functions: every call returns fresh symbols, consistent (Ackermann) with
earlier calls at equal points.  The call log is what properties about evaluation points, counters
and staleness are asserted against."""
from __future__ import annotations

import z3

from .core import CTX
from .scalar import SReal, SBool, FP_MODE


def _eq_point(p, q):
    """-> True / False / z3 Bool: are the two points (lists of SReal) equal?"""
    if len(p) != len(q):
        return False
    conj = []
    for a, b in zip(p, q):
        r = (a == b)
        if r is True:
            continue
        if r is False:
            return False
        conj.append(r.e)
    if not conj:
        return True
    return z3.And(*conj) if len(conj) > 1 else conj[0]


class UF:
    """One uninterpreted function R^n -> R^k."""

    def __init__(self, name, k=1, register=True, known=None):
        self.name = name
        self.k = k
        self.calls = []        # (point, values) in call order, duplicates included
        self.table = []        # distinct (point, values)
        self.register = register
        for p, v in (known or []):
            self.table.append((list(p), list(v)))

    def __call__(self, point):
        point = [SReal.of(c) for c in point]
        vals = None
        for (q, v) in self.table:
            if _eq_point(point, q) is True:
                vals = v
                break
        if vals is None:
            idx = len(self.table)
            if FP_MODE[0]:
                from .scalar_fp import SFP
                vals = [SFP(CTX.fp("%s%d_%d" % (self.name, idx, j))) for j in range(self.k)]
                for v in vals:
                    CTX.assume(z3.And(z3.Not(z3.fpIsNaN(v.z())), z3.Not(z3.fpIsInf(v.z()))), check=False)
            else:
                vals = [SReal(CTX.fresh("%s%d_%d" % (self.name, idx, j), register=self.register)) for j in range(self.k)]
            for (q, v) in self.table:
                e = _eq_point(point, q)
                if e is False:
                    continue
                CTX.constrain_aux(z3.Implies(e, z3.And(*[a.z() == b.z() for a, b in zip(vals, v)])))
            self.table.append((point, vals))
        self.calls.append((point, vals))
        return vals

    def value_at(self, point):
        """Values if `point` is syntactically a logged point, else None."""
        point = [SReal.of(c) for c in point]
        for (q, v) in self.table:
            if _eq_point(point, q) is True:
                return v
        return None
