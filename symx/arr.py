"""A small pure-Python ndarray (<= 2 dimensions) whose elements are symx scalars.

Elements are SReal (floats), python int (index/int arrays), python bool / SBool
(boolean arrays).  Operations are NumPy's; anything whose *shape* or control flow
depends on a symbolic Boolean forks through CTX.decide.  In-place operators really
mutate, the writeable flag is honoured, object aliasing is therefore faithful.
Basic slices return copies (documented deviation: no views), except `.T` of a 1-D
array and asarray/atleast_1d of an array, which return the same object.
"""
from __future__ import annotations

import z3

from .core import CTX, Unsupported
from .scalar import (SReal, SBool, XInt, Fraction, INF, NINF, NAN, ITE_MODE, sqrt as ssqrt,
                     smin, smax, zbool)


class Flags:
    __slots__ = ("writeable",)

    def __init__(self):
        self.writeable = True


class DType:
    def __init__(self, name):
        self.name = name

    def __eq__(self, o):
        return dtype_name(o) == self.name

    def __ne__(self, o):
        return dtype_name(o) != self.name

    def __hash__(self):
        return hash(self.name)

    def __repr__(self):
        return "dtype(%s)" % self.name

    def __call__(self, v=0):
        return coerce_elem(v, self.name)


float64 = DType("float")
float32 = DType("float32")     # single precision: a conversion INTO it rounds (modelled by an uninterpreted rounding)
int_ = DType("int")
bool_ = DType("bool")
object_ = DType("object")


def dtype_name(d):
    if d is None:
        return None
    if isinstance(d, DType):
        return d.name
    if d is float:
        return "float"
    if d is int:
        return "int"
    if d is bool:
        return "bool"
    if isinstance(d, str):
        return {"float64": "float", "float": "float", "int": "int", "bool": "bool", "d": "float", "float32": "float32", "f4": "float32", "f": "float32"}.get(d, d)
    return "object"


def round_to_single(v):
    """Conversion of a double to single precision, abstracted: an uninterpreted FUNCTION rnd32 with
    |rnd32(v) - v| <= 2^-24 |v| (normal range), rnd32(0) = 0.  Exact reals cannot say which neighbour is taken: any value in
    the interval is allowed (counterexamples are replayed on the real package before they count)."""
    v = v if isinstance(v, SReal) else SReal.of(v)
    if v.is_special:
        return v
    if v.is_concrete:
        import struct
        try:
            return SReal.of(Fraction(struct.unpack("f", struct.pack("f", float(v.v)))[0]))
        except OverflowError:
            return v
    import z3
    from .oracle import UF
    uf = CTX.cache.get("rnd32")      # per path (the cache is reset with the path)
    if uf is None:
        uf = CTX.cache["rnd32"] = UF("rnd32_", 1)
    r = uf([v])[0]
    u = z3.RealVal("1/16777216")
    vz, rz = v.z(), r.z()
    CTX.assume(z3.Or(z3.And(vz >= 0, rz >= vz * (1 - u), rz <= vz * (1 + u)), z3.And(vz < 0, rz <= vz * (1 - u), rz >= vz * (1 + u))), check=False)
    return r


def coerce_elem(v, dt):
    if dt == "float32":
        return v if isinstance(v, SReal) else SReal.of(v)
    if dt == "float":
        return v if isinstance(v, SReal) else SReal.of(v)
    if dt == "int":
        if isinstance(v, (int, bool)):
            return int(v)
        if isinstance(v, XInt):
            return v.i
        if isinstance(v, SReal) and v.is_concrete and v.v.denominator == 1:
            return int(v.v)
        if isinstance(v, float) and v == int(v):
            return int(v)
        raise Unsupported("int() of %r" % (v,))
    if dt == "bool":
        if isinstance(v, (bool, SBool)):
            return v
        if isinstance(v, (int, XInt)):
            return bool(int(v))
        return v != 0
    return v


def elem_dtype(v):
    if isinstance(v, (bool, SBool)):
        return "bool"
    if isinstance(v, (int, XInt)):
        return "int"
    if isinstance(v, (SReal, float, Fraction)):
        return "float"
    return "object"


def common_dtype(ds):
    ds = set(ds)
    if "object" in ds:
        return "object"
    if "float" in ds:
        return "float"
    if "float32" in ds:
        return "float32" if ds <= {"float32", "bool"} else "float"
    if "int" in ds:
        return "int"
    if "bool" in ds:
        return "bool"
    return "float"


def _prod(shape):
    p = 1
    for s in shape:
        p *= s
    return p


def is_arr(o):
    return isinstance(o, SArr)


def asarr(o, dtype=None):
    """Anything array-like -> SArr (same object if already one and no dtype change)."""
    if isinstance(o, SArr):
        if dtype is not None and dtype_name(dtype) != o.dtype:
            return o.astype(dtype)
        return o
    if isinstance(o, (list, tuple)) or hasattr(o, "__iter__") and not isinstance(o, (str, bytes, SReal)):
        items = list(o)
        if len(items) == 0:
            return SArr((0,), [], dtype_name(dtype) or "float")
        if all(isinstance(i, SArr) for i in items) or any(isinstance(i, (list, tuple, SArr)) for i in items):
            rows = [asarr(i) for i in items]
            shp = rows[0].shape
            for r in rows:
                if r.shape != shp:
                    raise ValueError("inhomogeneous shape")
            data = []
            for r in rows:
                data.extend(r.data)
            dt = dtype_name(dtype) or common_dtype(r.dtype for r in rows)
            return SArr((len(rows),) + shp, [coerce_elem(d, dt) for d in data], dt)
        dt = dtype_name(dtype) or common_dtype(elem_dtype(i) for i in items)
        return SArr((len(items),), [coerce_elem(i, dt) for i in items], dt)
    # scalar
    dt = dtype_name(dtype) or elem_dtype(o)
    return SArr((), [coerce_elem(o, dt)], dt)


def _bshape(s1, s2):
    n = max(len(s1), len(s2))
    a = (1,) * (n - len(s1)) + tuple(s1)
    b = (1,) * (n - len(s2)) + tuple(s2)
    out = []
    for x, y in zip(a, b):
        if x == y or y == 1:
            out.append(x)
        elif x == 1:
            out.append(y)
        else:
            raise ValueError("operands could not be broadcast together with shapes %s %s" % (s1, s2))
    return tuple(out)


def _bindex(shape, out_shape):
    """list mapping flat index of out_shape -> flat index into an array of `shape`."""
    n = len(out_shape)
    sh = (1,) * (n - len(shape)) + tuple(shape)
    strides = []
    acc = 1
    for s in reversed(sh):
        strides.append(acc)
        acc *= s
    strides = list(reversed(strides))
    res = []
    total = _prod(out_shape)
    idx = [0] * n
    for _ in range(total):
        f = 0
        for k in range(n):
            if sh[k] != 1:
                f += idx[k] * strides[k]
        res.append(f)
        for k in range(n - 1, -1, -1):
            idx[k] += 1
            if idx[k] < out_shape[k]:
                break
            idx[k] = 0
    return res


def _elementwise2(a, b, f, out_dtype=None):
    a_is, b_is = isinstance(a, SArr), isinstance(b, SArr)
    if not a_is:
        a = asarr(a)
    if not b_is:
        b = asarr(b)
    shp = _bshape(a.shape, b.shape)
    if a.shape == shp:
        ia = range(len(a.data))
    else:
        ia = _bindex(a.shape, shp)
    if b.shape == shp:
        ib = range(len(b.data))
    else:
        ib = _bindex(b.shape, shp)
    ad, bd = a.data, b.data
    data = [f(ad[i], bd[j]) for i, j in zip(ia, ib)]
    if out_dtype is None:
        out_dtype = common_dtype([a.dtype, b.dtype]) if data == [] else common_dtype(elem_dtype(d) for d in data)
    r = SArr(shp, data, out_dtype)
    return r


def _fl(v):
    """element -> SReal for float maths."""
    return v if isinstance(v, SReal) else SReal.of(v)


def _truediv(x, y):
    return _fl(x) / _fl(y)


def _not(b):
    if isinstance(b, bool):
        return not b
    if isinstance(b, SBool):
        return ~b
    if isinstance(b, int):
        return ~b
    raise Unsupported("invert of %r" % (b,))


class FlatIter:
    def __init__(self, arr):
        self.arr = arr

    def __setitem__(self, key, value):
        a = self.arr
        a._check_write()
        idx = list(range(len(a.data)))[key] if isinstance(key, slice) else [key]
        vals = asarr(value)
        if vals.shape == ():
            vs = [vals.data[0]] * len(idx)
        else:
            vs = vals.data
            if len(vs) != len(idx):
                raise ValueError("flat assignment size mismatch")
        for i, v in zip(idx, vs):
            a.data[i] = coerce_elem(v, a.dtype)

    def __getitem__(self, key):
        a = self.arr
        if isinstance(key, slice):
            d = a.data[key]
            return SArr((len(d),), d, a.dtype)
        return a.data[key]

    def __iter__(self):
        return iter(self.arr.data)


class SArr:
    __array_priority__ = 2000

    def __init__(self, shape, data, dtype="float"):
        self.shape = tuple(int(s) for s in shape)
        self.data = list(data)
        self.dtype_ = dtype
        self.flags = Flags()
        if len(self.data) != _prod(self.shape):
            raise ValueError("data/shape mismatch %s %d" % (self.shape, len(self.data)))

    # ---- basic attributes ------------------------------------------------
    @property
    def dtype(self):
        return self.dtype_

    @property
    def ndim(self):
        return len(self.shape)

    @property
    def size(self):
        return XInt(len(self.data))

    @property
    def T(self):
        if self.ndim < 2:
            return self
        m, n = self.shape
        r = type(self)((n, m), [self.data[i * n + j] for j in range(n) for i in range(m)], self.dtype_)
        return r

    def transpose(self):
        return self.T

    @property
    def flat(self):
        return FlatIter(self)

    @property
    def real(self):
        return self

    def __len__(self):
        if self.ndim == 0:
            raise TypeError("len() of unsized object")
        return self.shape[0]

    def __iter__(self):
        if self.ndim == 0:
            raise TypeError("iteration over a 0-d array")
        if self.ndim == 1:
            return iter(list(self.data))
        m, n = self.shape
        return iter([SArr((n,), self.data[i * n:(i + 1) * n], self.dtype_) for i in range(m)])

    def __repr__(self):
        return "SArr(%s, %s, %r)" % (self.shape, self.dtype_, self.data if len(self.data) <= 12 else "...")

    def __format__(self, spec):
        return "<array %s>" % (self.shape,)

    def _check_write(self):
        if not self.flags.writeable:
            raise ValueError("assignment destination is read-only")

    def setflags(self, write=None):
        if write is not None:
            self.flags.writeable = bool(write)

    def copy(self):
        return type(self)(self.shape, list(self.data), self.dtype_)

    __copy__ = copy

    def __deepcopy__(self, memo):
        return self.copy()

    def astype(self, dtype, copy=True, **_k):
        dt = dtype_name(dtype)
        if not copy and dt == self.dtype_:
            # numpy: no copy when the type already matches (the result IS the array)
            return self
        if dt == "float32" and self.dtype_ != "float32":
            return SArr(self.shape, [round_to_single(coerce_elem(d, "float")) for d in self.data], "float32")
        return SArr(self.shape, [coerce_elem(d, dt) for d in self.data], dt)

    def item(self, *a):
        if a:
            return self.data[a[0]]
        if len(self.data) != 1:
            raise ValueError("can only convert an array of size 1 to a Python scalar")
        return self.data[0]

    def tolist(self):
        if self.ndim <= 1:
            return list(self.data)
        return [r.tolist() for r in self]

    def reshape(self, *shape):
        if len(shape) == 1 and isinstance(shape[0], (tuple, list)):
            shape = tuple(shape[0])
        shape = list(int(s) for s in shape)
        if -1 in shape:
            k = shape.index(-1)
            rest = _prod([s for s in shape if s != -1])
            shape[k] = len(self.data) // rest if rest else 0
        return SArr(tuple(shape), list(self.data), self.dtype_)

    def ravel(self):
        return SArr((len(self.data),), list(self.data), self.dtype_)

    flatten = ravel

    def __bool__(self):
        if len(self.data) != 1:
            raise ValueError("The truth value of an array with more than one element is ambiguous.")
        return bool(self.data[0])

    def __float__(self):
        if len(self.data) != 1:
            raise TypeError("only length-1 arrays can be converted to Python scalars")
        return float(self.data[0])

    def __index__(self):
        if len(self.data) != 1 or self.dtype_ != "int":
            raise TypeError("only integer scalar arrays can be converted to a scalar index")
        return int(self.data[0])

    # ---- indexing ----------------------------------------------------------
    def _axis_indices(self, key, dim):
        """-> (list of indices, keep_axis)"""
        if isinstance(key, (int, XInt)) and not isinstance(key, bool):
            k = int(key)
            if k < 0:
                k += dim
            if not (0 <= k < dim):
                raise IndexError("index %d is out of bounds for axis with size %d" % (int(key), dim))
            return [k], False
        if isinstance(key, slice):
            return list(range(dim))[key], True
        if isinstance(key, SReal) and key.is_concrete and key.v.denominator == 1:
            return self._axis_indices(int(key.v), dim)
        if isinstance(key, (list, tuple)):
            key = asarr(key)
        if isinstance(key, SArr):
            if key.ndim == 0:
                return self._axis_indices(key.data[0], dim)
            if key.ndim != 1:
                raise Unsupported("index array with ndim %d" % key.ndim)
            if key.dtype_ == "bool":
                if len(key.data) != dim:
                    raise IndexError("boolean index did not match indexed array")
                return [i for i, b in enumerate(key.data) if bool(b)], True
            out = []
            for k in key.data:
                k = int(k)
                if k < 0:
                    k += dim
                if not (0 <= k < dim):
                    raise IndexError("index %d is out of bounds for axis with size %d" % (k, dim))
                out.append(k)
            return out, True
        raise Unsupported("index of type %r" % (type(key),))

    def _resolve(self, key):
        """-> (flat indices, result shape)"""
        if self.ndim == 0:
            raise IndexError("too many indices for array")
        if not isinstance(key, tuple):
            key = (key,)
        if any(k is None for k in key):
            # np.newaxis: only the pattern a[:, None] on 1-D arrays
            if self.ndim == 1 and len(key) == 2 and key[1] is None and isinstance(key[0], slice):
                idx, _ = self._axis_indices(key[0], self.shape[0])
                return idx, (len(idx), 1)
            raise Unsupported("newaxis pattern")
        if len(key) > self.ndim:
            raise IndexError("too many indices for array")
        if self.ndim == 1:
            idx, keep = self._axis_indices(key[0], self.shape[0])
            return idx, ((len(idx),) if keep else ())
        m, n = self.shape
        k0 = key[0]
        k1 = key[1] if len(key) > 1 else slice(None)
        # 2-D boolean mask over the whole array
        if len(key) == 1 and isinstance(k0, SArr) and k0.ndim == 2 and k0.dtype_ == "bool":
            idx = [i for i, b in enumerate(k0.data) if bool(b)]
            return idx, (len(idx),)
        r, keepr = self._axis_indices(k0, m)
        c, keepc = self._axis_indices(k1, n)
        adv0 = isinstance(k0, (SArr, list)) and not (isinstance(k0, SArr) and k0.ndim == 0)
        adv1 = isinstance(k1, (SArr, list)) and not (isinstance(k1, SArr) and k1.ndim == 0)
        if adv0 and adv1:
            if len(r) != len(c):
                raise IndexError("shape mismatch: indexing arrays could not be broadcast together")
            return [i * n + j for i, j in zip(r, c)], (len(r),)
        flat = [i * n + j for i in r for j in c]
        shp = ()
        if keepr:
            shp += (len(r),)
        if keepc:
            shp += (len(c),)
        return flat, shp

    def __getitem__(self, key):
        flat, shp = self._resolve(key)
        if shp == ():
            return self.data[flat[0]]
        cls = SArr
        return cls(shp, [self.data[i] for i in flat], self.dtype_)

    def __setitem__(self, key, value):
        self._check_write()
        flat, shp = self._resolve(key)
        if isinstance(value, (SArr, list, tuple)):
            v = asarr(value)
            if v.shape == shp or (v.ndim >= 1 and len(v.data) == len(flat) and _prod(shp) == len(v.data)):
                vals = v.data
            else:
                tgt = _bshape(v.shape, shp)
                if tgt != shp:
                    raise ValueError("could not broadcast input array from shape %s into shape %s" % (v.shape, shp))
                vals = [v.data[i] for i in _bindex(v.shape, shp)]
        else:
            vals = [value] * len(flat)
        if len(vals) != len(flat):
            raise ValueError("shape mismatch in assignment")
        dt = self.dtype_
        for i, x in zip(flat, vals):
            self.data[i] = coerce_elem(x, dt)

    # ---- arithmetic ----------------------------------------------------------
    def _bin(self, o, f, rev=False, out_dtype=None):
        if isinstance(o, (str, bytes)) or o is None:
            return NotImplemented
        if rev:
            return _elementwise2(o, self, f, out_dtype)
        return _elementwise2(self, o, f, out_dtype)

    def __add__(self, o): return self._bin(o, lambda x, y: x + y)
    def __radd__(self, o): return self._bin(o, lambda x, y: x + y, True)
    def __sub__(self, o): return self._bin(o, lambda x, y: x - y)
    def __rsub__(self, o): return self._bin(o, lambda x, y: x - y, True)
    def __mul__(self, o): return self._bin(o, lambda x, y: x * y)
    def __rmul__(self, o): return self._bin(o, lambda x, y: x * y, True)
    def __truediv__(self, o): return self._bin(o, _truediv, out_dtype="float")
    def __rtruediv__(self, o): return self._bin(o, _truediv, True, out_dtype="float")
    def __pow__(self, o): return self._bin(o, lambda x, y: _fl(x) ** y if not (isinstance(x, int) and isinstance(y, int)) else x ** y)
    def __neg__(self): return SArr(self.shape, [-d for d in self.data], self.dtype_)
    def __pos__(self): return self
    def __abs__(self): return SArr(self.shape, [abs(d) for d in self.data], self.dtype_)
    def __invert__(self): return SArr(self.shape, [_not(d) for d in self.data], self.dtype_)

    def __and__(self, o): return self._bin(o, lambda x, y: x & y)
    def __rand__(self, o): return self._bin(o, lambda x, y: x & y, True)
    def __or__(self, o): return self._bin(o, lambda x, y: x | y)
    def __ror__(self, o): return self._bin(o, lambda x, y: x | y, True)

    def __lt__(self, o): return self._bin(o, lambda x, y: x < y, out_dtype="bool")
    def __le__(self, o): return self._bin(o, lambda x, y: x <= y, out_dtype="bool")
    def __gt__(self, o): return self._bin(o, lambda x, y: x > y, out_dtype="bool")
    def __ge__(self, o): return self._bin(o, lambda x, y: x >= y, out_dtype="bool")
    def __eq__(self, o): return self._bin(o, lambda x, y: x == y, out_dtype="bool")
    def __ne__(self, o): return self._bin(o, lambda x, y: x != y, out_dtype="bool")

    __hash__ = None

    def _inplace(self, o, f):
        self._check_write()
        r = _elementwise2(self, o, f)
        if r.shape != self.shape:
            raise ValueError("non-broadcastable output operand")
        dt = self.dtype_
        self.data[:] = [coerce_elem(d, dt) for d in r.data]
        return self

    def __iadd__(self, o): return self._inplace(o, lambda x, y: x + y)
    def __isub__(self, o): return self._inplace(o, lambda x, y: x - y)
    def __imul__(self, o): return self._inplace(o, lambda x, y: x * y)
    def __itruediv__(self, o): return self._inplace(o, _truediv)

    # ---- linear algebra --------------------------------------------------------
    def dot(self, o):
        return matmul(self, o)

    def __matmul__(self, o):
        if isinstance(o, (str, bytes)) or o is None:
            return NotImplemented
        return matmul(self, o)

    def __rmatmul__(self, o):
        return matmul(o, self)

    # ---- reductions ----------------------------------------------------------
    def sum(self, axis=None):
        return asum(self, axis)

    def prod(self):
        r = 1
        for d in self.data:
            r = r * d
        return r

    def any(self):
        for d in self.data:
            if bool(d):
                return True
        return False

    def all(self):
        for d in self.data:
            if not bool(d):
                return False
        return True

    def max(self):
        return amax(self)

    def min(self):
        return amin(self)

    def nonzero(self):
        if self.ndim != 1:
            raise Unsupported("nonzero on ndim != 1")
        idx = [i for i, d in enumerate(self.data) if bool(d if isinstance(d, (bool, SBool)) else d != 0)]
        return (SArr((len(idx),), idx, "int"),)

    def diagonal(self):
        m, n = self.shape
        k = min(m, n)
        return SArr((k,), [self.data[i * n + i] for i in range(k)], self.dtype_)

    def tocsc(self):
        return self

    def todense(self):
        return self

    def toarray(self):
        return self


class SSparse(SArr):
    """Dense-backed stand-in for scipy.sparse.lil_matrix / csc_matrix."""

    @property
    def T(self):
        r = SArr.T.fget(self)
        return r


def matmul(a, b):
    a, b = asarr(a), asarr(b)
    if a.ndim == 0 or b.ndim == 0:
        return a * b
    if a.ndim == 1 and b.ndim == 1:
        if a.shape != b.shape:
            raise ValueError("shapes %s and %s not aligned" % (a.shape, b.shape))
        r = SReal.of(0) if (a.dtype_ == "float" or b.dtype_ == "float") else 0
        for x, y in zip(a.data, b.data):
            r = r + x * y
        return r
    if a.ndim == 2 and b.ndim == 1:
        m, n = a.shape
        if n != b.shape[0]:
            raise ValueError("shapes %s and %s not aligned" % (a.shape, b.shape))
        out = []
        for i in range(m):
            r = SReal.of(0)
            for k in range(n):
                r = r + a.data[i * n + k] * b.data[k]
            out.append(r)
        return SArr((m,), out, "float")
    if a.ndim == 1 and b.ndim == 2:
        n, k = b.shape
        if n != a.shape[0]:
            raise ValueError("shapes %s and %s not aligned" % (a.shape, b.shape))
        out = []
        for j in range(k):
            r = SReal.of(0)
            for i in range(n):
                r = r + a.data[i] * b.data[i * k + j]
            out.append(r)
        return SArr((k,), out, "float")
    m, n = a.shape
    n2, k = b.shape
    if n != n2:
        raise ValueError("shapes %s and %s not aligned" % (a.shape, b.shape))
    out = []
    for i in range(m):
        for j in range(k):
            r = SReal.of(0)
            for t in range(n):
                r = r + a.data[i * n + t] * b.data[t * k + j]
            out.append(r)
    return SArr((m, k), out, "float")


def asum(a, axis=None):
    a = asarr(a)
    if axis is None:
        r = SReal.of(0) if a.dtype_ == "float" else 0
        for d in a.data:
            if isinstance(d, (bool, SBool)):
                d = SReal.of(d) if isinstance(d, SBool) else int(d)
            r = r + d
        return r
    if a.ndim != 2:
        return asum(a)
    m, n = a.shape
    if axis == 0:
        return SArr((n,), [asum(SArr((m,), [a.data[i * n + j] for i in range(m)], a.dtype_)) for j in range(n)], a.dtype_)
    return SArr((m,), [asum(SArr((n,), a.data[i * n:(i + 1) * n], a.dtype_)) for i in range(m)], a.dtype_)


def _isnan(d):
    return isinstance(d, SReal) and d.is_special and d.v != d.v


def amax(a, skipnan=False):
    a = asarr(a)
    if len(a.data) == 0:
        raise ValueError("zero-size array to reduction operation maximum which has no identity")
    r = None
    for d in a.data:
        if _isnan(d):
            if skipnan:
                continue
            return d
        r = d if r is None else (smax(r, d) if isinstance(d, SReal) or isinstance(r, SReal) else max(r, d))
    return r if r is not None else SReal(NAN)


def amin(a, skipnan=False):
    a = asarr(a)
    if len(a.data) == 0:
        raise ValueError("zero-size array to reduction operation minimum which has no identity")
    r = None
    for d in a.data:
        if _isnan(d):
            if skipnan:
                continue
            return d
        r = d if r is None else (smin(r, d) if isinstance(d, SReal) or isinstance(r, SReal) else min(r, d))
    return r if r is not None else SReal(NAN)
