"""Parallel path exploration: a work list of decision prefixes over a process pool."""
from __future__ import annotations

import importlib
import multiprocessing as mp
import os
import sys
import time

from .core import run_path, Stats

_FN = {}


def _resolve(target):
    if target not in _FN:
        modname, _, fn = target.partition(":")
        mod = importlib.import_module(modname)
        _FN[target] = getattr(mod, fn)
    return _FN[target]


def _worker(args):
    target, params, prefix, timeout_ms = args
    fn = _resolve(target)
    try:
        r = run_path(fn, params, prefix, timeout_ms)
    except Exception as e:           # an exception of the harness itself (not of the code under test)
        import traceback
        return dict(prefix=prefix, outcome="harness_error", summary="%s: %s" % (type(e).__name__, e),
                    trace=traceback.format_exc(), alternatives=[], obligations=[], events=[], decisions=0,
                    forced=0, stats=Stats().as_dict(), wall=0.0, maybe_infeasible=False, npc=0)
    r.pop("_stats_obj", None)
    return r


class Exploration:
    """Aggregated result of exploring one harness function with one parameter set."""

    def __init__(self, target, params):
        self.target = target
        self.params = params
        self.paths = 0               # feasible completed paths
        self.infeasible = 0
        self.decisions = 0
        self.queries = dict(sat=0, unsat=0, unknown=0)
        self.solver_time = 0.0
        self.slowest = 0.0
        self.by_outcome = {}
        self.obligations = 0
        self.discharged = 0
        self.candidates = []         # sat obligations: dict(name, model, info, prefix)
        self.unknown_obligations = []
        self.problems = []           # unsupported / harness_error / budget
        self.witnesses = []          # sample of (prefix, witness, summary)
        self.summaries = {}
        self.wall = 0.0
        self.exhausted = True
        self.maybe_infeasible_paths = 0
        self.events = {}
        self.contract_cut_models = {}
        self.retried_decided = 0

    def add(self, r, keep_witness):
        st = r["stats"]
        for k in ("sat", "unsat", "unknown"):
            self.queries[k] += st[k]
        self.solver_time += st["solver_time_s"]
        self.slowest = max(self.slowest, st["slowest_query_s"])
        self.decisions += r["decisions"]
        oc = r["outcome"]
        if oc == "infeasible":
            self.infeasible += 1
            for ev in r.get("events") or []:
                if ev["kind"].startswith("contract_cut:"):
                    self.events[ev["kind"]] = self.events.get(ev["kind"], 0) + 1
                    self.contract_cut_models.setdefault(ev["kind"], ev.get("model"))
            return
        if oc != "done":
            self.problems.append(dict(outcome=oc, summary=r["summary"], prefix=r["prefix"], trace=r.get("trace")))
            return
        self.paths += 1
        if r.get("maybe_infeasible"):
            self.maybe_infeasible_paths += 1
        key = str(r["summary"]) if not isinstance(r["summary"], dict) else str(r["summary"].get("cls"))
        self.by_outcome[key] = self.by_outcome.get(key, 0) + 1
        for ev in r["events"]:
            self.events[ev["kind"]] = self.events.get(ev["kind"], 0) + 1
        for idx, ob in enumerate(r["obligations"]):
            self.obligations += 1
            if ob["status"] == "unsat":
                self.discharged += 1
            elif ob["status"] == "sat":
                self.candidates.append(dict(name=ob["name"], model=ob.get("model"), info=ob.get("info"),
                                            prefix=r["prefix"], summary=r["summary"]))
            else:
                self.unknown_obligations.append(dict(name=ob["name"], info=ob.get("info"), prefix=r["prefix"], idx=idx))
        if keep_witness and r.get("witness") is not None:
            self.witnesses.append(dict(prefix=r["prefix"], witness=r["witness"], summary=r["summary"], n_eq=r.get("n_eq", 0)))

    def as_dict(self):
        return dict(target=self.target, params=self.params, feasible_paths=self.paths, infeasible_paths=self.infeasible,
                    branch_decisions=self.decisions, queries=self.queries, solver_time_s=round(self.solver_time, 2),
                    slowest_query_s=round(self.slowest, 2), paths_by_outcome=self.by_outcome,
                    obligations=self.obligations, discharged=self.discharged, candidates=len(self.candidates),
                    unknown_obligations=len(self.unknown_obligations), problems=len(self.problems),
                    wall_s=round(self.wall, 2), exhausted=self.exhausted, events=self.events,
                    paths_with_undecided_feasibility=self.maybe_infeasible_paths, obligations_decided_on_retry=self.retried_decided)


_POOL = None


def pool(nproc=None):
    global _POOL
    if _POOL is None:
        nproc = nproc or int(os.environ.get("SYMX_NPROC", "0")) or min(16, os.cpu_count() or 4)
        ctx = mp.get_context("fork")
        _POOL = ctx.Pool(nproc, maxtasksperchild=200)
        _POOL._symx_n = nproc
    return _POOL


def close_pool():
    global _POOL
    if _POOL is not None:
        _POOL.terminate()
        _POOL = None


def explore(target, params, **kw):
    """Explore every feasible path of harness `target` ("module:function")."""
    return explore_many([(target, params)], **kw)[0]


def explore_many(jobs, max_paths=20000, time_limit=600.0, timeout_ms=None, witness_every=1,
                 max_witnesses=400, nproc=None, stop_on_candidates=None):
    """Explore several (target, params) jobs concurrently over one pool.

    max_paths / stop_on_candidates are per job; time_limit is for the whole batch.
    """
    exs = [Exploration(t, p) for t, p in jobs]
    t0 = time.time()
    if stop_on_candidates is None:
        # enough counterexamples to replay: do not exhaust a tree that is already known to violate
        stop_on_candidates = int(os.environ.get("SYMX_STOP_CANDS", "300"))
    serial = nproc == 1 or bool(os.environ.get("SYMX_SERIAL"))
    work = [(j, []) for j in range(len(jobs))][::-1]
    submitted = [0] * len(jobs)
    stopped = [False] * len(jobs)
    done_t = [None] * len(jobs)
    inflight = [0] * len(jobs)

    prog = int(os.environ.get("SYMX_PROGRESS", "0"))
    count = [0]

    def handle(j, r):
        ex = exs[j]
        count[0] += 1
        if prog and count[0] % prog == 0:
            sys.stderr.write("[symx] %d paths done, %d queued, %.0fs, slowest query %.1fs\n" % (count[0], len(work), time.time() - t0, max(e.slowest for e in exs)))
            sys.stderr.flush()
        ex.add(r, len(ex.witnesses) < max_witnesses and (ex.paths % witness_every == 0))
        if not stopped[j]:
            work.extend((j, alt) for alt, _ in r["alternatives"])
        elif r["alternatives"]:
            ex.exhausted = False
        if stop_on_candidates and len(ex.candidates) >= stop_on_candidates and not stopped[j]:
            stopped[j] = True
            left = [w for w in work if w[0] == j]
            if left:
                ex.exhausted = False
            work[:] = [w for w in work if w[0] != j]

    def admit(j):
        if stopped[j]:
            return False
        if submitted[j] >= max_paths or time.time() - t0 > time_limit:
            exs[j].exhausted = False
            stopped[j] = True
            work[:] = [w for w in work if w[0] != j]
            return False
        return True

    if serial:
        while work:
            j, p = work.pop()
            if not admit(j):
                continue
            submitted[j] += 1
            handle(j, _worker((jobs[j][0], jobs[j][1], p, timeout_ms)))
    else:
        P = pool(nproc)
        width = 3 * P._symx_n
        pending = []
        while work or pending:
            while work and len(pending) < width:
                j, p = work.pop()
                if not admit(j):
                    continue
                submitted[j] += 1
                inflight[j] += 1
                pending.append((j, P.apply_async(_worker, ((jobs[j][0], jobs[j][1], p, timeout_ms),))))
            still = []
            progressed = False
            for j, a in pending:
                if a.ready():
                    progressed = True
                    inflight[j] -= 1
                    handle(j, a.get())
                    if inflight[j] == 0 and not any(w[0] == j for w in work):
                        done_t[j] = time.time() - t0
                else:
                    still.append((j, a))
            pending = still
            if not progressed:
                time.sleep(0.003)
    for j, ex in enumerate(exs):
        ex.wall = done_t[j] if done_t[j] is not None else time.time() - t0
    # second chance for undecided obligations: the solver time-outs are wall-clock, so a loaded machine turns
    # decidable queries into 'unknown'.  Their paths are re-run a few at a time with a larger time-out.
    factor = float(os.environ.get("SYMX_RETRY_FACTOR", "3"))
    if factor > 0 and timeout_ms:
        todo = []
        for j, ex in enumerate(exs):
            for pref in {tuple(u["prefix"]) for u in ex.unknown_obligations}:
                todo.append((j, list(pref)))
        todo = todo[:24]
        if todo:
            args = [(jobs[j][0], jobs[j][1], pref, int(timeout_ms * factor)) for j, pref in todo]
            if serial:
                results = [_worker(a) for a in args]
            else:
                P = pool(nproc)
                results = []
                for k in range(0, len(args), 4):
                    batch = [P.apply_async(_worker, (a,)) for a in args[k:k + 4]]
                    results.extend(b.get() for b in batch)
            for (j, pref), r2 in zip(todo, results):
                ex = exs[j]
                st = r2["stats"]
                for k in ("sat", "unsat", "unknown"):
                    ex.queries[k] += st[k]
                ex.solver_time += st["solver_time_s"]
                ex.slowest = max(ex.slowest, st["slowest_query_s"])
                if r2["outcome"] != "done":
                    continue
                keep = []
                for u in ex.unknown_obligations:
                    if u["prefix"] != pref:
                        keep.append(u)
                        continue
                    ob = r2["obligations"][u["idx"]] if u.get("idx") is not None and u["idx"] < len(r2["obligations"]) else None
                    if ob is None or ob["name"] != u["name"] or ob["status"] not in ("sat", "unsat"):
                        keep.append(u)
                    elif ob["status"] == "unsat":
                        ex.discharged += 1
                        ex.retried_decided += 1
                    else:
                        ex.retried_decided += 1
                        ex.candidates.append(dict(name=ob["name"], model=ob.get("model"), info=ob.get("info"), prefix=pref, summary=r2["summary"]))
                ex.unknown_obligations = keep
    return exs
