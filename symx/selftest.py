"""Op-level differential self-test of the shim in concrete mode against real NumPy/SciPy,
plus whole-kernel concrete runs (shim vs. the real package through replay/realrun.py)."""
from __future__ import annotations

import random
import sys
from fractions import Fraction

import numpy as rnp
import scipy.linalg as rsl

from .core import CTX
from .loader import World
from .scalar import SReal, SBool


def to_shim(np, a):
    a = rnp.asarray(a)
    if a.dtype == bool:
        return np.array(a.tolist(), dtype=bool)
    if a.dtype.kind in "iu":
        return np.array(a.tolist(), dtype=int)
    return np.array(a.tolist())


def to_real(x):
    from .arr import SArr
    if isinstance(x, SArr):
        if x.ndim == 0:
            return to_real(x.data[0])
        flat = [to_real(d) for d in x.data]
        return rnp.array(flat).reshape(x.shape)
    if isinstance(x, SReal):
        if x.is_symbolic:
            CTX._ensure_model()
            return x.eval_float(CTX)
        return float(x.v)
    if isinstance(x, SBool):
        return bool(x)
    if isinstance(x, tuple):
        return tuple(to_real(i) for i in x)
    if hasattr(x, "i"):
        return int(x.i)
    return x


def close(a, b):
    a, b = rnp.asarray(a, dtype=float), rnp.asarray(b, dtype=float)
    if a.shape != b.shape:
        return False
    return bool(rnp.allclose(a, b, rtol=1e-9, atol=1e-9, equal_nan=True))


def run(verbose=False):
    W = World()
    np = W.np
    sp = W.sp
    rng = random.Random(12345)
    CTX.reset([], None)

    def rv(*shape):
        return rnp.array([rng.randint(-16, 16) / 4.0 for _ in range(int(rnp.prod(shape)))]).reshape(shape)

    def spd(n):
        a = rv(n, n)
        return a @ a.T + n * rnp.eye(n)

    failures = []
    n_ok = 0

    def case(name, f_shim, f_real):
        nonlocal n_ok
        try:
            got = to_real(f_shim())
            want = f_real()
            ok = close(got, want) if not isinstance(want, tuple) else all(close(g, w) for g, w in zip(got, want))
        except Exception as e:  # noqa
            ok = False
            got, want = "EXC %s: %s" % (type(e).__name__, e), None
        if ok:
            n_ok += 1
        else:
            failures.append((name, got, want))

    for rep in range(6):
        a, b, v, w = rv(3, 3), rv(3, 3), rv(3), rv(3)
        A, B, V, Wv = (to_shim(np, t) for t in (a, b, v, w))
        m = rv(4, 3)
        M = to_shim(np, m)
        S = spd(3)
        SS = to_shim(np, S)
        L = rnp.linalg.cholesky(S)
        LL = to_shim(np, L)
        mask = v > 0
        MASK = V > 0
        case("matmul22", lambda: A @ B, lambda: a @ b)
        case("matmul21", lambda: A @ V, lambda: a @ v)
        case("matmul12", lambda: V @ A, lambda: v @ a)
        case("dot11", lambda: V.dot(Wv), lambda: v.dot(w))
        case("T", lambda: M.T @ M, lambda: m.T @ m)
        case("cholesky_lower", lambda: sp.linalg.cholesky(SS, lower=True), lambda: rsl.cholesky(S, lower=True))
        case("cholesky_upper", lambda: sp.linalg.cholesky(SS, lower=False), lambda: rsl.cholesky(S, lower=False))
        case("solve_tri_lower", lambda: sp.linalg.solve_triangular(LL, V, lower=True), lambda: rsl.solve_triangular(L, v, lower=True))
        case("solve_tri_upper", lambda: sp.linalg.solve_triangular(LL.T, V, lower=False), lambda: rsl.solve_triangular(L.T, v, lower=False))
        case("solve_tri_mat", lambda: sp.linalg.solve_triangular(LL, A, lower=True, trans="N"), lambda: rsl.solve_triangular(L, a, lower=True, trans="N"))
        case("solve_tri_trans", lambda: sp.linalg.solve_triangular(LL, V, lower=True, trans="T"), lambda: rsl.solve_triangular(L, v, lower=True, trans="T"))
        case("linalg_solve", lambda: np.linalg.solve(SS, V), lambda: rnp.linalg.solve(S, v))
        case("linalg_solve_mat", lambda: np.linalg.solve(SS, A), lambda: rnp.linalg.solve(S, a))
        case("clip", lambda: np.clip(V, -1.0, Wv), lambda: rnp.clip(v, -1.0, w))
        case("where", lambda: np.where(V > 0, V, Wv), lambda: rnp.where(v > 0, v, w))
        case("all", lambda: np.all(V), lambda: bool(rnp.all(v)))
        case("any", lambda: np.any(V * 0.0), lambda: bool(rnp.any(v * 0.0)))
        case("isclose", lambda: np.isclose(V, V + 1e-9 * Wv), lambda: rnp.isclose(v, v + 1e-9 * w))
        case("isclose_far", lambda: np.isclose(V, Wv), lambda: rnp.isclose(v, w))

        def _ct(npm, dst, src, msk):
            d = npm.array(dst)
            npm.copyto(d, src, where=msk)
            return d
        case("copyto_where", lambda: _ct(np, V, Wv, V > 0), lambda: _ct(rnp, v, w, v > 0))
        case("abs_max", lambda: np.max(np.abs(V - Wv)), lambda: rnp.max(rnp.abs(v - w)))
        case("argsort", lambda: np.argsort(V), lambda: rnp.argsort(v, kind="stable"))
        case("diff0", lambda: np.diff(M, axis=0), lambda: rnp.diff(m, axis=0))
        case("cumsum0", lambda: np.cumsum(M, axis=0), lambda: rnp.cumsum(m, axis=0))
        case("bcast12", lambda: V - np.cumsum(M, axis=0), lambda: v - rnp.cumsum(m, axis=0))
        case("hstack", lambda: np.hstack([A, B]), lambda: rnp.hstack([a, b]))
        case("vstack", lambda: np.vstack([A, M]), lambda: rnp.vstack([a, m]))
        case("tril", lambda: np.tril(A, -1), lambda: rnp.tril(a, -1))
        case("diagdiag", lambda: np.diag(np.diag(A)), lambda: rnp.diag(rnp.diag(a)))
        case("mask_get", lambda: V[MASK], lambda: v[mask])
        case("int_get", lambda: V[np.argsort(V)], lambda: v[rnp.argsort(v, kind="stable")])
        case("nonzero", lambda: MASK.nonzero()[0], lambda: mask.nonzero()[0])
        case("row", lambda: A[1, :], lambda: a[1, :])
        case("block", lambda: A[:2, 1:], lambda: a[:2, 1:])
        case("einsum", lambda: np.einsum("ij,ij->i", A, B), lambda: rnp.einsum("ij,ij->i", a, b))
        case("norm_inf", lambda: np.linalg.norm(V, np.inf), lambda: rnp.linalg.norm(v, rnp.inf))
        case("sum_prod", lambda: np.square(V).sum() + np.prod(Wv), lambda: rnp.square(v).sum() + rnp.prod(w))
        case("power", lambda: np.power(V, 3), lambda: rnp.power(v, 3))
        case("pow_float", lambda: V ** 2.0, lambda: v ** 2.0)
        case("atleast2d_diff", lambda: np.atleast_2d(np.diff(np.array([V, Wv]), axis=0)), lambda: rnp.atleast_2d(rnp.diff(rnp.array([v, w]), axis=0)))
        case("isin", lambda: np.isin(np.arange(4), np.array([1, 3])), lambda: rnp.isin(rnp.arange(4), rnp.array([1, 3])))
        case("count_nonzero", lambda: np.count_nonzero(np.logical_or(V >= 1, V <= -1)), lambda: rnp.count_nonzero(rnp.logical_or(v >= 1, v <= -1)))

        def sh_set():
            X = A.copy()
            X[:2, :2] = -B[:2, :2]
            X[2, :] *= 2
            X.flat[::4] = V
            np.fill_diagonal(X, X.diagonal() + 1)
            Y = V.copy()
            Y[MASK] = (Y * 2)[MASK]
            Y += Wv
            Y[1:] += V[:-1]
            return X, Y

        def re_set():
            X = a.copy()
            X[:2, :2] = -b[:2, :2]
            X[2, :] *= 2
            X.flat[::4] = v
            rnp.fill_diagonal(X, X.diagonal() + 1)
            Y = v.copy()
            Y[mask] = (Y * 2)[mask]
            Y += w
            Y[1:] += v[:-1]
            return X, Y
        case("setitem_mix", sh_set, re_set)
        with rnp.errstate(all="ignore"):
            z = v.copy()
            z[0] = 0.0
            Z = to_shim(np, z)
            case("div_zero_where", lambda: np.isfinite(Wv / Z), lambda: rnp.isfinite(w / z))
            case("nanmin", lambda: np.nanmin(np.where(Z != 0, Z, np.inf)), lambda: rnp.nanmin(rnp.where(z != 0, z, rnp.inf)))
    # read-only flag
    ro = np.array([1.0, 2.0])
    ro.flags.writeable = False
    try:
        ro += 1
        failures.append(("readonly", "no exception", "ValueError"))
    except ValueError:
        n_ok += 1
    return n_ok, failures


def main():
    n_ok, failures = run()
    for f in failures[:20]:
        print("SELFTEST-FAIL", f)
    print("symx selftest: %d op cases agree with NumPy/SciPy, %d disagree" % (n_ok, len(failures)))
    return 1 if failures else 0


if __name__ == "__main__":
    sys.exit(main())
