"""Mode-R scalars: exact rationals, z3 Real terms, and the IEEE specials as tags.

SReal.v is one of
  * Fraction                 – a concrete finite number (read from the source as written)
  * z3.ArithRef              – a symbolic *finite* real
  * float('inf'), float('-inf'), float('nan') – special values with NumPy's rules
SBool.e is a z3 BoolRef (concrete truth values are plain Python bools).
"""
from __future__ import annotations

import math
from fractions import Fraction

import z3

from .core import CTX, Unsupported
from . import poly as P

INF = float("inf")
NINF = float("-inf")
NAN = float("nan")

# when True, abs/min/max/where/clip build ite-terms instead of forking
ITE_MODE = [False]
# when True, float elements are IEEE binary64 terms (symx.scalar_fp.SFP) instead of exact reals
FP_MODE = [False]


def frac_of(c):
    """Concrete python number -> Fraction, reading floats as the decimal written."""
    if isinstance(c, Fraction):
        return c
    if isinstance(c, bool):
        return Fraction(int(c))
    if isinstance(c, int):
        return Fraction(c)
    if isinstance(c, XInt):
        return Fraction(c.i)
    if isinstance(c, float):
        if c != c or c in (INF, NINF):
            raise ValueError("special")
        return Fraction(repr(c))
    raise TypeError(type(c))


class XInt:
    """An exact integer that does not turn into a binary float when mixed with floats."""
    __slots__ = ("i",)

    def __init__(self, i):
        self.i = int(i)

    def __index__(self):
        return self.i

    def __int__(self):
        return self.i

    def __hash__(self):
        return hash(self.i)

    def __repr__(self):
        return repr(self.i)

    def __format__(self, spec):
        return format(self.i, spec)

    def __bool__(self):
        return self.i != 0

    def _other(self, o):
        if isinstance(o, XInt):
            return o.i
        if isinstance(o, (int, bool)):
            return int(o)
        return None

    def __eq__(self, o):
        k = self._other(o)
        if k is None:
            return NotImplemented
        return self.i == k

    def __ne__(self, o):
        k = self._other(o)
        if k is None:
            return NotImplemented
        return self.i != k

    def __lt__(self, o):
        k = self._other(o)
        return NotImplemented if k is None else self.i < k

    def __le__(self, o):
        k = self._other(o)
        return NotImplemented if k is None else self.i <= k

    def __gt__(self, o):
        k = self._other(o)
        return NotImplemented if k is None else self.i > k

    def __ge__(self, o):
        k = self._other(o)
        return NotImplemented if k is None else self.i >= k

    def _arith(self, o, f, rev=False):
        k = self._other(o)
        if k is not None:
            return XInt(f(k, self.i) if rev else f(self.i, k))
        if isinstance(o, (float, Fraction)):
            a, b = SReal.of(self), SReal.of(o)
            return f(b, a) if rev else f(a, b)
        return NotImplemented

    def __add__(self, o): return self._arith(o, lambda a, b: a + b)
    def __radd__(self, o): return self._arith(o, lambda a, b: a + b, True)
    def __sub__(self, o): return self._arith(o, lambda a, b: a - b)
    def __rsub__(self, o): return self._arith(o, lambda a, b: a - b, True)
    def __mul__(self, o): return self._arith(o, lambda a, b: a * b)
    def __rmul__(self, o): return self._arith(o, lambda a, b: a * b, True)
    def __neg__(self): return XInt(-self.i)
    def __floordiv__(self, o):
        k = self._other(o)
        return NotImplemented if k is None else XInt(self.i // k)
    def __mod__(self, o):
        k = self._other(o)
        return NotImplemented if k is None else XInt(self.i % k)

    def __truediv__(self, o):
        if isinstance(o, (int, XInt, float, Fraction)) and not isinstance(o, bool):
            return SReal.of(self) / SReal.of(o)
        return NotImplemented

    def __rtruediv__(self, o):
        if isinstance(o, (int, XInt, float, Fraction)) and not isinstance(o, bool):
            return SReal.of(o) / SReal.of(self)
        return NotImplemented


class SBool:
    __slots__ = ("e",)

    def __init__(self, e):
        self.e = e

    @staticmethod
    def mk(e):
        """z3 Bool -> python bool when trivially decided, else SBool."""
        if isinstance(e, bool):
            return e
        e = z3.simplify(e)
        if z3.is_true(e):
            return True
        if z3.is_false(e):
            return False
        return SBool(e)

    def __bool__(self):
        return CTX.decide(self.e)

    def __invert__(self):
        return SBool.mk(z3.Not(self.e))

    def _z(self, o):
        if isinstance(o, SBool):
            return o.e
        if isinstance(o, bool):
            return z3.BoolVal(o)
        return None

    def __and__(self, o):
        z = self._z(o)
        return NotImplemented if z is None else SBool.mk(z3.And(self.e, z))

    __rand__ = __and__

    def __or__(self, o):
        z = self._z(o)
        return NotImplemented if z is None else SBool.mk(z3.Or(self.e, z))

    __ror__ = __or__

    def __repr__(self):
        return "SBool(%s)" % (self.e,)


def zbool(b):
    """python bool / SBool -> z3 BoolRef."""
    if isinstance(b, SBool):
        return b.e
    return z3.BoolVal(bool(b))


def _fracval(fr):
    return z3.RealVal(str(fr.numerator) + "/" + str(fr.denominator)) if fr.denominator != 1 else z3.RealVal(fr.numerator)


class Sym:
    """A symbolic finite real: a rational function in normal form (rf) and/or a z3 term (zt)."""
    __slots__ = ("rf", "zt", "special")

    def __init__(self, rf=None, zt=None):
        self.rf = rf
        self.zt = zt
        if rf is not None:
            self.special = tuple(i for i in (P.p_atoms(rf[0]) | P.p_atoms(rf[1])) if P.ATOMS[i].kind in ("psqrt", "gsqrt"))
        else:
            self.special = ()

    def z(self):
        if self.zt is None:
            self.zt = P.rf_to_z3(self.rf)
        if self.special:
            decl = CTX.cache.setdefault("declared_atoms", set())
            for i in self.special:
                if i not in decl:
                    _declare_atom(i, decl)
        return self.zt

    def get_id(self):
        return self.z().get_id()


def _declare_atom(i, decl):
    decl.add(i)
    at = P.ATOMS[i]
    if at.kind == "psqrt":
        CTX.constrain_aux(z3.And(at.zc > 0, at.zc * at.zc == at.prime))
    elif at.kind == "gsqrt":
        rad = Sym(at.radicand)
        CTX.constrain_aux(z3.And(at.zc >= 0, at.zc * at.zc == rad.z()))


def _rf_of(v):
    """Fraction | Sym -> rf or None."""
    if isinstance(v, Fraction):
        return (P.p_const(v), P.P_ONE)
    return v.rf


def _mk(rf):
    """rf -> SReal (collapsing constants, degrading oversized forms to an opaque atom)."""
    if P.rf_is_const(rf):
        return SReal(P.p_const_value(rf[0]))
    if rf[1] != P.P_ONE and P.rf_size(rf) >= P.CANCEL_MIN:
        rf = P.rf_cancel(rf)
        if P.rf_is_const(rf):
            return SReal(P.p_const_value(rf[0]))
    if P.rf_size(rf) > P.SIZE_LIMIT:
        zt = Sym(rf).z()
        return SReal(Sym((P.p_atom(P.atom_for_opaque(zt)), P.P_ONE), zt))
    return SReal(Sym(rf))


def sym_from_z3(e):
    e = z3.simplify(e)
    if z3.is_rational_value(e):
        return SReal(Fraction(e.numerator_as_long(), e.denominator_as_long()))
    if z3.is_const(e) and e.decl().kind() == z3.Z3_OP_UNINTERPRETED:
        return SReal(Sym((P.p_atom(P.atom_for_const(e)), P.P_ONE), e))
    return SReal(Sym((P.p_atom(P.atom_for_opaque(e)), P.P_ONE), e))


class SReal:
    __slots__ = ("v",)
    __array_priority__ = 1000

    def __init__(self, v):
        if isinstance(v, z3.ExprRef):
            v = sym_from_z3(v).v
        self.v = v

    # ---- construction ----------------------------------------------------
    @staticmethod
    def of(c):
        if FP_MODE[0]:
            from .scalar_fp import SFP
            return SFP.of(c)
        if isinstance(c, SReal):
            return c
        if isinstance(c, float):
            if c != c:
                return SReal(NAN)
            if c == INF:
                return SReal(INF)
            if c == NINF:
                return SReal(NINF)
            return SReal(Fraction(repr(c)))
        if isinstance(c, (int, bool, Fraction, XInt)):
            return SReal(frac_of(c))
        if isinstance(c, z3.ArithRef):
            return sym_from_z3(c)
        if isinstance(c, SBool):
            return sym_from_z3(z3.If(c.e, z3.RealVal(1), z3.RealVal(0)))
        if hasattr(c, "shape") and getattr(c, "shape", None) == ():
            return SReal.of(c.item())
        raise Unsupported("cannot make a scalar from %r" % (type(c),))

    @staticmethod
    def sym(e):
        return sym_from_z3(e)

    # ---- classification --------------------------------------------------
    @property
    def is_concrete(self):
        return isinstance(self.v, Fraction)

    @property
    def is_special(self):
        return isinstance(self.v, float)

    @property
    def is_symbolic(self):
        return isinstance(self.v, Sym)

    def is_algebraic_const(self):
        return isinstance(self.v, Sym) and self.v.rf is not None and P.rf_is_algebraic_const(self.v.rf)

    def z(self):
        """z3 term of a finite value."""
        if isinstance(self.v, Fraction):
            return _fracval(self.v)
        if isinstance(self.v, float):
            raise Unsupported("special value %r used as a finite term" % self.v)
        return self.v.z()

    def eval_float(self, ctx=None):
        if isinstance(self.v, (Fraction, float)):
            return float(self.v)
        return (ctx or CTX).eval_float(self.z())

    def _const_sign(self):
        """sign if decidable without the solver, else None."""
        if isinstance(self.v, Fraction):
            return (self.v > 0) - (self.v < 0)
        if isinstance(self.v, Sym) and self.v.rf is not None and P.rf_is_algebraic_const(self.v.rf) and self.v.rf[1] == P.P_ONE:
            try:
                return P.algebraic_sign(self.v.rf[0])
            except ValueError:
                return None
        return None

    def sign_concrete(self):
        """-1/0/1 (None for NaN); forks for symbolic values."""
        if isinstance(self.v, float):
            if self.v != self.v:
                return None
            return 1 if self.v > 0 else -1
        s = self._const_sign()
        if s is not None:
            return s
        z = self.z()
        if CTX.decide(z > 0):
            return 1
        if CTX.decide(z < 0):
            return -1
        return 0

    # ---- arithmetic ------------------------------------------------------
    def _coerce(self, o):
        if isinstance(o, SReal):
            return o
        if isinstance(o, (int, float, Fraction, XInt, bool, SBool)):
            return SReal.of(o)
        return None

    def __add__(self, o):
        o = self._coerce(o)
        if o is None:
            return NotImplemented
        a, b = self.v, o.v
        if isinstance(a, float) or isinstance(b, float):
            fa = a if isinstance(a, float) else 0.0
            fb = b if isinstance(b, float) else 0.0
            return SReal(fa + fb)
        if isinstance(a, Fraction) and isinstance(b, Fraction):
            return SReal(a + b)
        if isinstance(a, Fraction) and a == 0:
            return o
        if isinstance(b, Fraction) and b == 0:
            return self
        ra, rb = _rf_of(a), _rf_of(b)
        if ra is not None and rb is not None:
            return _mk(P.rf_add(ra, rb))
        return sym_from_z3(self.z() + o.z())

    __radd__ = __add__

    def __neg__(self):
        if isinstance(self.v, (float, Fraction)):
            return SReal(-self.v)
        if self.v.rf is not None:
            return SReal(Sym(P.rf_neg(self.v.rf)))
        return sym_from_z3(-self.z())

    def __pos__(self):
        return self

    def __sub__(self, o):
        o = self._coerce(o)
        if o is None:
            return NotImplemented
        return self + (-o)

    def __rsub__(self, o):
        o = self._coerce(o)
        if o is None:
            return NotImplemented
        return o + (-self)

    def __mul__(self, o):
        o = self._coerce(o)
        if o is None:
            return NotImplemented
        a, b = self.v, o.v
        if isinstance(a, float) or isinstance(b, float):
            if (isinstance(a, float) and a != a) or (isinstance(b, float) and b != b):
                return SReal(NAN)
            sa, sb = self.sign_concrete(), o.sign_concrete()
            if sa == 0 or sb == 0:
                return SReal(NAN)
            return SReal(INF if sa * sb > 0 else NINF)
        if isinstance(a, Fraction) and isinstance(b, Fraction):
            return SReal(a * b)
        if isinstance(a, Fraction):
            if a == 0:
                return SReal(Fraction(0))
            if a == 1:
                return o
        if isinstance(b, Fraction):
            if b == 0:
                return SReal(Fraction(0))
            if b == 1:
                return self
        ra, rb = _rf_of(a), _rf_of(b)
        if ra is not None and rb is not None:
            return _mk(P.rf_mul(ra, rb))
        return sym_from_z3(self.z() * o.z())

    __rmul__ = __mul__

    def _is_zero(self):
        """concrete bool (forking if needed): is this finite value zero?"""
        s = self._const_sign()
        if s is not None:
            return s == 0
        if CTX.cache.get("assume_divisors_nonzero"):
            # harness-declared domain assumption: divisors are non-zero (listed in the evidence)
            CTX.assume(z3.Not(self.z() == 0), check=False)
            return False
        if self.v.rf is not None:
            num = self.v.rf[0]
            if P.p_is_const(num):
                return P.p_const_value(num) == 0
            return CTX.decide(SReal(Sym((num, P.P_ONE))).z() == 0)
        return CTX.decide(self.z() == 0)

    def __truediv__(self, o):
        o = self._coerce(o)
        if o is None:
            return NotImplemented
        a, b = self.v, o.v
        if isinstance(a, float) and a != a or isinstance(b, float) and b != b:
            return SReal(NAN)
        if isinstance(b, float):          # x / +-inf
            if isinstance(a, float):
                return SReal(NAN)
            return SReal(Fraction(0))
        if isinstance(a, float):          # +-inf / finite
            sb = o.sign_concrete()
            if sb == 0:
                sb = 1                    # inf / 0.0 -> inf (NumPy, +0.0)
            return SReal(INF if (a > 0) == (sb > 0) else NINF)
        if isinstance(a, Fraction) and isinstance(b, Fraction) and b != 0:
            return SReal(a / b)
        if o._is_zero():
            sa = self.sign_concrete()
            CTX.event("div_by_zero")
            return SReal(NAN if sa == 0 else (INF if sa > 0 else NINF))
        if isinstance(a, Fraction) and a == 0:
            return SReal(Fraction(0))
        if isinstance(b, Fraction) and b == 1:
            return self
        ra, rb = _rf_of(a), _rf_of(b)
        if ra is not None and rb is not None:
            return _mk(P.rf_mul(ra, P.rf_inv(rb)))
        return sym_from_z3(self.z() / o.z())

    def __rtruediv__(self, o):
        o = self._coerce(o)
        if o is None:
            return NotImplemented
        return o / self

    def __pow__(self, p):
        if isinstance(p, SReal) and p.is_concrete:
            p = p.v
        if isinstance(p, XInt):
            p = p.i
        if isinstance(p, float):
            if p != int(p):
                if p == 0.5:
                    return sqrt(self)
                raise Unsupported("non-integer power %r" % p)
            p = int(p)
        if isinstance(p, Fraction):
            if p.denominator != 1:
                if p == Fraction(1, 2):
                    return sqrt(self)
                raise Unsupported("non-integer power %r" % p)
            p = p.numerator
        if not isinstance(p, int):
            raise Unsupported("symbolic exponent")
        if p < 0:
            return SReal.of(1) / (self ** (-p))
        r = SReal.of(1)
        for _ in range(p):
            r = r * self
        return r

    def __abs__(self):
        if isinstance(self.v, (float, Fraction)):
            return SReal(abs(self.v))
        s = self._const_sign()
        if s is not None:
            return self if s >= 0 else -self
        if ITE_MODE[0]:
            z = self.z()
            return sym_from_z3(z3.If(z >= 0, z, -z))
        return self if CTX.decide(self.z() >= 0) else -self

    # ---- comparisons -------------------------------------------------------
    def _cmp(self, o, op):
        o = self._coerce(o)
        if o is None:
            return NotImplemented
        a, b = self.v, o.v
        if isinstance(a, float) or isinstance(b, float):
            if (isinstance(a, float) and a != a) or (isinstance(b, float) and b != b):
                CTX.event("nan_compare")
                return op == "ne"
            fa = a if isinstance(a, float) else 0.0
            fb = b if isinstance(b, float) else 0.0
            return {"lt": fa < fb, "le": fa <= fb, "gt": fa > fb, "ge": fa >= fb,
                    "eq": fa == fb, "ne": fa != fb}[op]
        if isinstance(a, Fraction) and isinstance(b, Fraction):
            return {"lt": a < b, "le": a <= b, "gt": a > b, "ge": a >= b,
                    "eq": a == b, "ne": a != b}[op]
        ra, rb = _rf_of(a), _rf_of(b)
        if ra is not None and rb is not None:
            if P.rf_equal(ra, rb):
                return op in ("le", "ge", "eq")
            d = self - o
            s = d._const_sign()
            if s is not None:
                return {"lt": s < 0, "le": s <= 0, "gt": s > 0, "ge": s >= 0, "eq": s == 0, "ne": s != 0}[op]
            if isinstance(d.v, Sym) and d.v.rf is not None:
                num, den = d.v.rf
                if op in ("eq", "ne") or den == P.P_ONE:
                    # canonical atom: (numerator with positive leading coefficient) op 0
                    _, lc = P.p_lead(num)
                    if lc < 0:
                        num = P.p_neg(num)
                        op = {"lt": "gt", "le": "ge", "gt": "lt", "ge": "le", "eq": "eq", "ne": "ne"}[op]
                    t = SReal(Sym((num, P.P_ONE))).z()
                    zero = z3.RealVal(0)
                    if op == "lt":
                        return SBool.mk(t < zero)
                    if op == "le":
                        return SBool.mk(t <= zero)
                    if op == "gt":
                        return SBool.mk(t > zero)
                    if op == "ge":
                        return SBool.mk(t >= zero)
                    if op == "eq":
                        return SBool.mk(t == zero)
                    return SBool.mk(z3.Not(t == zero))
        za, zb = self.z(), o.z()
        if op == "lt":
            return SBool.mk(za < zb)
        if op == "le":
            return SBool.mk(za <= zb)
        if op == "gt":
            return SBool.mk(za > zb)
        if op == "ge":
            return SBool.mk(za >= zb)
        if op == "eq":
            return SBool.mk(za == zb)
        return SBool.mk(z3.Not(za == zb))

    def __lt__(self, o): return self._cmp(o, "lt")
    def __le__(self, o): return self._cmp(o, "le")
    def __gt__(self, o): return self._cmp(o, "gt")
    def __ge__(self, o): return self._cmp(o, "ge")
    def __eq__(self, o): return self._cmp(o, "eq")
    def __ne__(self, o): return self._cmp(o, "ne")

    __hash__ = object.__hash__

    # ---- python protocol ---------------------------------------------------
    def __bool__(self):
        r = self != 0
        return bool(r)

    def __float__(self):
        if isinstance(self.v, float):
            return self.v
        if isinstance(self.v, Fraction):
            return float(self.v)
        raise Unsupported("float() of a symbolic value")

    def __int__(self):
        if isinstance(self.v, Fraction) and self.v.denominator == 1:
            return int(self.v)
        raise Unsupported("int() of a non-integer / symbolic value")

    def __index__(self):
        return self.__int__()

    def __copy__(self):
        return self

    def __deepcopy__(self, memo):
        return self

    def __format__(self, spec):
        if isinstance(self.v, (Fraction, float)):
            try:
                return format(float(self.v), spec)
            except Exception:
                return str(self.v)
        return "<sym>"

    def __repr__(self):
        if isinstance(self.v, Fraction):
            return "R(%s)" % self.v
        if isinstance(self.v, float):
            return "R(%r)" % self.v
        s = str(self.v.z())
        return "R<%s>" % (s if len(s) < 60 else s[:57] + "...")

    # numpy-scalar look-alikes
    shape = ()
    ndim = 0
    size = 1

    def item(self):
        return self

    def copy(self):
        return self

    def dot(self, o):
        return self * o

    @property
    def real(self):
        return self

    @property
    def T(self):
        return self

    def astype(self, *_a, **_k):
        return self

    def sum(self):
        return self


def sqrt(x):
    if FP_MODE[0]:
        from .scalar_fp import fsqrt
        return fsqrt(x)
    x = SReal.of(x)
    v = x.v
    if isinstance(v, float):
        if v != v or v == NINF:
            return SReal(NAN)
        return SReal(INF)
    if isinstance(v, Fraction):
        if v < 0:
            CTX.event("sqrt_negative")
            return SReal(NAN)
        if v == 0:
            return SReal(Fraction(0))
        pol = P.sqrt_of_fraction(v)
        if pol is not None:
            return _mk((pol, P.P_ONE))
    s = x._const_sign()
    if s is None:
        neg = CTX.decide(x.z() < 0)
    else:
        neg = s < 0
    if neg:
        CTX.event("sqrt_negative")
        return SReal(NAN)
    zt = x.z()
    key = ("sqrt", zt.get_id())
    cache = CTX.cache
    if key in cache:
        return cache[key]
    CTX.keep.append(zt)
    rad = v.rf if isinstance(v, Sym) else _rf_of(v)
    if rad is None:
        rad = (P.p_atom(P.atom_for_opaque(zt)), P.P_ONE)
    den = None
    if rad[1] != P.P_ONE:
        # sqrt(N/D) = sqrt(N*D)/|D|: keeps every radicand a polynomial so that s*s rewrites away
        D = SReal(Sym((rad[1], P.P_ONE)))
        sd = D.sign_concrete()
        den = D if sd > 0 else -D
        rad = (P.p_mul(rad[0], rad[1]), P.P_ONE)
    sv = CTX.fresh("sqrt")
    i = P.atom_for_gsqrt(sv, rad)
    r = SReal(Sym((P.p_atom(i), P.P_ONE), sv))
    r.z()      # declares the atom on this path
    if den is not None:
        r = r / den
    cache[key] = r
    return r


def smin(a, b):
    if FP_MODE[0]:
        from .scalar_fp import fmin
        return fmin(a, b)
    a, b = SReal.of(a), SReal.of(b)
    if ITE_MODE[0] and not a.is_special and not b.is_special and (a.is_symbolic or b.is_symbolic):
        c = a <= b
        if isinstance(c, bool):
            return a if c else b
        k = CTX.known(c.e)
        if k is not None:
            return a if k else b
        return sym_from_z3(z3.If(c.e, a.z(), b.z()))
    return a if (a <= b) else b


def smax(a, b):
    if FP_MODE[0]:
        from .scalar_fp import fmax
        return fmax(a, b)
    a, b = SReal.of(a), SReal.of(b)
    if ITE_MODE[0] and not a.is_special and not b.is_special and (a.is_symbolic or b.is_symbolic):
        c = a >= b
        if isinstance(c, bool):
            return a if c else b
        k = CTX.known(c.e)
        if k is not None:
            return a if k else b
        return sym_from_z3(z3.If(c.e, a.z(), b.z()))
    return a if (a >= b) else b


def is_scalar_like(o):
    return isinstance(o, (SReal, SBool, XInt, int, float, bool, Fraction))
