"""Normal forms for symbolic reals: rational functions P/Q over atoms with rational coefficients.

Atoms are z3 constants: input variables, uninterpreted-function outputs, square roots.  Square
roots of rationals are decomposed over sqrt(prime) atoms (a linearly independent basis), and
s^2 is rewritten to the radicand whenever a sqrt atom is squared, so that the irrational parts of
e.g. a Cholesky factor cancel *syntactically* when the code multiplies them back together.
The solver only ever sees the normal form.
"""
from __future__ import annotations

import math
from fractions import Fraction

import z3

SIZE_LIMIT = 600          # terms in P plus Q beyond which a value degrades to an opaque z3 term


class Atom:
    __slots__ = ("id", "kind", "zc", "radicand", "prime", "name")

    def __init__(self, id, kind, zc, radicand=None, prime=None):
        self.id = id
        self.kind = kind          # 'var' | 'psqrt' | 'gsqrt' | 'opaque'
        self.zc = zc              # z3 term standing for the atom
        self.radicand = radicand  # gsqrt: RatFunc ; opaque: None
        self.prime = prime
        self.name = str(zc) if kind != "opaque" else "opaque#%d" % id


ATOMS = []                # id -> Atom
BY_KEY = {}               # key -> id


def atom_for_const(zc):
    key = ("var", str(zc))
    i = BY_KEY.get(key)
    if i is None:
        i = len(ATOMS)
        ATOMS.append(Atom(i, "var", zc))
        BY_KEY[key] = i
    return i


def atom_for_opaque(zt):
    key = ("opaque", zt.get_id())
    i = BY_KEY.get(key)
    if i is None or ATOMS[i].zc.get_id() != zt.get_id():
        i = len(ATOMS)
        ATOMS.append(Atom(i, "opaque", zt))
        BY_KEY[key] = i
    return i


def atom_for_prime(p):
    key = ("psqrt", p)
    i = BY_KEY.get(key)
    if i is None:
        i = len(ATOMS)
        ATOMS.append(Atom(i, "psqrt", z3.Real("sqrt_of_%d" % p), prime=p))
        BY_KEY[key] = i
    return i


def atom_for_gsqrt(zc, radicand):
    key = ("gsqrt", str(zc))
    i = BY_KEY.get(key)
    if i is None:
        i = len(ATOMS)
        ATOMS.append(Atom(i, "gsqrt", zc, radicand=radicand))
        BY_KEY[key] = i
    else:
        ATOMS[i].radicand = radicand
        ATOMS[i].zc = zc
    return i


# ---------------------------------------------------------------------------
# polynomials: dict {monomial: Fraction}; monomial = tuple of (atom_id, exp), sorted by atom id

ONE = ()


def p_const(c):
    c = Fraction(c)
    return {ONE: c} if c != 0 else {}


def p_atom(i):
    return {((i, 1),): Fraction(1)}


def p_add(a, b):
    if not a:
        return b
    if not b:
        return a
    r = dict(a)
    for m, c in b.items():
        v = r.get(m)
        if v is None:
            r[m] = c
        else:
            v = v + c
            if v == 0:
                del r[m]
            else:
                r[m] = v
    return r


def p_neg(a):
    return {m: -c for m, c in a.items()}


def p_scale(a, c):
    if c == 0:
        return {}
    if c == 1:
        return a
    return {m: v * c for m, v in a.items()}


def _mono_mul(m1, m2):
    """-> (monomial, needs_reduce)"""
    if not m1:
        return m2, False
    if not m2:
        return m1, False
    out = []
    i = j = 0
    red = False
    while i < len(m1) and j < len(m2):
        a, b = m1[i], m2[j]
        if a[0] == b[0]:
            e = a[1] + b[1]
            out.append((a[0], e))
            if ATOMS[a[0]].kind in ("psqrt", "gsqrt"):
                red = True
            i += 1
            j += 1
        elif a[0] < b[0]:
            out.append(a)
            i += 1
        else:
            out.append(b)
            j += 1
    out.extend(m1[i:])
    out.extend(m2[j:])
    return tuple(out), red


def _reduce_term(m, c):
    """Rewrite s^k (k >= 2) for sqrt atoms. Returns a polynomial."""
    coef = c
    rest = []
    pending = []     # (radicand poly, power) for gsqrt atoms with polynomial radicand
    for (a, e) in m:
        at = ATOMS[a]
        if at.kind == "psqrt" and e >= 2:
            coef = coef * Fraction(at.prime) ** (e // 2)
            if e % 2:
                rest.append((a, 1))
        elif at.kind == "gsqrt" and e >= 2 and at.radicand is not None and at.radicand[1] == {ONE: Fraction(1)}:
            pending.append((at.radicand[0], e // 2))
            if e % 2:
                rest.append((a, 1))
        else:
            rest.append((a, e))
    r = {tuple(rest): coef}
    for rad, k in pending:
        for _ in range(k):
            r = p_mul(r, rad)
    return r


def p_mul(a, b):
    if not a or not b:
        return {}
    if len(a) == 1 and ONE in a:
        return p_scale(b, a[ONE])
    if len(b) == 1 and ONE in b:
        return p_scale(a, b[ONE])
    r = {}
    extra = []
    for m1, c1 in a.items():
        for m2, c2 in b.items():
            m, red = _mono_mul(m1, m2)
            c = c1 * c2
            if red:
                extra.append(_reduce_term(m, c))
                continue
            v = r.get(m)
            if v is None:
                r[m] = c
            else:
                v = v + c
                if v == 0:
                    del r[m]
                else:
                    r[m] = v
    for e in extra:
        r = p_add(r, e)
    return r


def p_is_const(a):
    return not a or (len(a) == 1 and ONE in a)


def p_const_value(a):
    return a.get(ONE, Fraction(0)) if a else Fraction(0)


def p_atoms(a):
    s = set()
    for m in a:
        for (i, _e) in m:
            s.add(i)
    return s


def p_only_psqrt(a):
    return all(ATOMS[i].kind == "psqrt" for i in p_atoms(a))


def _reducible_sqrt(i):
    at = ATOMS[i]
    return at.kind == "psqrt" or (at.kind == "gsqrt" and at.radicand is not None and at.radicand[1] == {ONE: Fraction(1)})


def p_conj(a, atom):
    """Flip the sign of every term containing sqrt atom `atom` to an odd power."""
    r = {}
    for m, c in a.items():
        odd = any(i == atom and e % 2 for (i, e) in m)
        r[m] = -c if odd else c
    return r


def p_monomial_content(polys):
    """Largest monomial dividing every term of every polynomial (only 'var'/'opaque' atoms)."""
    common = None
    for p in polys:
        for m in p:
            d = dict(m)
            if common is None:
                common = d
            else:
                common = {i: min(e, d[i]) for i, e in common.items() if i in d}
            if not common:
                return ()
    if not common:
        return ()
    return tuple(sorted((i, e) for i, e in common.items() if ATOMS[i].kind in ("var", "opaque")))


def p_div_mono(p, mono):
    if not mono:
        return p
    dm = dict(mono)
    r = {}
    for m, c in p.items():
        d = dict(m)
        for i, e in dm.items():
            d[i] -= e
            if d[i] == 0:
                del d[i]
        r[tuple(sorted(d.items()))] = c
    return r


def p_lead(a):
    m = max(a)
    return m, a[m]


# ---------------------------------------------------------------------------
# rational functions (P, Q)

P_ONE = {ONE: Fraction(1)}


def rf_normalize(P, Q):
    if not P:
        return {}, P_ONE
    if Q == P_ONE:
        return P, Q
    if p_is_const(Q):
        c = p_const_value(Q)
        return p_scale(P, 1 / c), P_ONE
    # rationalise the denominator with respect to every square-root atom that can be squared away
    for _ in range(24):
        ats = [i for i in p_atoms(Q) if _reducible_sqrt(i)]
        if not ats:
            break
        if len(P) * len(Q) > 4 * SIZE_LIMIT:
            break
        cj = p_conj(Q, ats[0])
        P = p_mul(P, cj)
        Q = p_mul(Q, cj)
    if not P:
        return {}, P_ONE
    if p_is_const(Q):
        return p_scale(P, 1 / p_const_value(Q)), P_ONE
    if P == Q:
        return P_ONE, P_ONE
    mono = p_monomial_content([P, Q])
    if mono:
        P, Q = p_div_mono(P, mono), p_div_mono(Q, mono)
    _, lc = p_lead(Q)
    if lc != 1:
        P, Q = p_scale(P, 1 / lc), p_scale(Q, 1 / lc)
    if len(P) == len(Q):
        # P = c*Q ?
        m, c = p_lead(Q)
        cp = P.get(m)
        if cp is not None and p_scale(Q, cp) == P:
            return p_const(cp), P_ONE
    return P, Q


CANCEL_MIN = 12          # try a polynomial gcd when P and Q together have at least this many terms
_CANCEL_STATS = dict(tried=0, reduced=0)


def rf_cancel(rf):
    """Divide numerator and denominator by their polynomial gcd (sympy, over Q)."""
    Pn, Q = rf
    if Q == P_ONE or not Pn or len(Q) < 2:
        return rf
    import sympy
    ids = sorted(p_atoms(Pn) | p_atoms(Q))
    if not ids:
        return rf
    gens = [sympy.Symbol("a%d" % i) for i in ids]
    pos = {i: k for k, i in enumerate(ids)}

    def to_sp(p):
        d = {}
        for m, c in p.items():
            e = [0] * len(ids)
            for (i, k) in m:
                e[pos[i]] = k
            d[tuple(e)] = sympy.Rational(c.numerator, c.denominator)
        return sympy.Poly.from_dict(d, gens=gens, domain="QQ")

    def from_sp(q):
        out = {}
        for e, c in q.as_dict().items():
            m = tuple((ids[k], int(ex)) for k, ex in enumerate(e) if ex)
            out[m] = Fraction(int(c.p), int(c.q))
        return out
    _CANCEL_STATS["tried"] += 1
    try:
        a, b = to_sp(Pn), to_sp(Q)
        g = a.gcd(b)
        if g.is_ground:
            return rf
        a2, b2 = a.quo(g), b.quo(g)
    except Exception:
        return rf
    _CANCEL_STATS["reduced"] += 1
    return rf_normalize(from_sp(a2), from_sp(b2))


def rf_add(a, b):
    if a[1] == b[1]:
        return rf_normalize(p_add(a[0], b[0]), a[1])
    return rf_normalize(p_add(p_mul(a[0], b[1]), p_mul(b[0], a[1])), p_mul(a[1], b[1]))


def rf_neg(a):
    return p_neg(a[0]), a[1]


def rf_mul(a, b):
    if a[0] == b[1]:
        return rf_normalize(b[0], a[1])
    if b[0] == a[1]:
        return rf_normalize(a[0], b[1])
    return rf_normalize(p_mul(a[0], b[0]), p_mul(a[1], b[1]))


def rf_inv(a):
    return rf_normalize(a[1], a[0])


def rf_equal(a, b):
    if a[1] == b[1]:
        return a[0] == b[0]
    return p_mul(a[0], b[1]) == p_mul(b[0], a[1])


def rf_size(a):
    return len(a[0]) + len(a[1])


def rf_is_const(a):
    return a[1] == P_ONE and p_is_const(a[0])


def rf_is_algebraic_const(a):
    return all(ATOMS[i].kind in ("psqrt",) for i in p_atoms(a[0]) | p_atoms(a[1]))


# ---------------------------------------------------------------------------
# sqrt of a rational as a polynomial over sqrt(prime) atoms


def _factor(n):
    f = {}
    d = 2
    while d * d <= n:
        while n % d == 0:
            f[d] = f.get(d, 0) + 1
            n //= d
        d += 1 if d == 2 else 2
        if d > 10 ** 6:
            break
    if n > 1:
        f[n] = f.get(n, 0) + 1
    return f


def sqrt_of_fraction(fr):
    """sqrt(fr), fr > 0 rational -> polynomial (single term) over prime-sqrt atoms, or None if too big to factor."""
    n, d = fr.numerator, fr.denominator
    v = n * d                 # sqrt(n/d) = sqrt(n d)/d
    if v > 10 ** 24:
        return None
    f = _factor(v)
    out = Fraction(1, d)
    mono = []
    for p, e in sorted(f.items()):
        out *= Fraction(p) ** (e // 2)
        if e % 2:
            if p > 10 ** 12 and not _is_prime_small(p):
                return None
            mono.append((atom_for_prime(p), 1))
    mono.sort()
    return {tuple(mono): out}


def _is_prime_small(p):
    if p < 2:
        return False
    r = math.isqrt(p)
    d = 2
    while d <= r and d < 10 ** 6:
        if p % d == 0:
            return False
        d += 1
    return True


# ---------------------------------------------------------------------------
# numeric evaluation of algebraic constants (for concrete comparisons)


def p_eval_numeric(a, prec=80):
    import mpmath
    mpmath.mp.dps = prec
    tot = mpmath.mpf(0)
    for m, c in a.items():
        t = mpmath.mpf(c.numerator) / mpmath.mpf(c.denominator)
        for (i, e) in m:
            at = ATOMS[i]
            if at.kind != "psqrt":
                raise ValueError("not an algebraic constant")
            t *= mpmath.sqrt(at.prime) ** e
        tot += t
    return tot


def algebraic_sign(a):
    """sign of a polynomial over psqrt atoms (exact: the basis is linearly independent)."""
    if not a:
        return 0
    if p_is_const(a):
        c = p_const_value(a)
        return (c > 0) - (c < 0)
    for prec in (50, 200, 1000):
        v = p_eval_numeric(a, prec)
        import mpmath
        if abs(v) > mpmath.mpf(10) ** (-(prec // 2)):
            return 1 if v > 0 else -1
    raise ValueError("cannot decide the sign of an algebraic constant")


# ---------------------------------------------------------------------------
# z3 conversion


def p_to_z3(a):
    if not a:
        return z3.RealVal(0)
    terms = []
    for m, c in sorted(a.items()):
        fs = []
        if c != 1 or not m:
            fs.append(z3.RealVal(str(c.numerator) + "/" + str(c.denominator)) if c.denominator != 1 else z3.RealVal(c.numerator))
        for (i, e) in m:
            zc = ATOMS[i].zc
            for _ in range(e):
                fs.append(zc)
        t = fs[0]
        for f in fs[1:]:
            t = t * f
        terms.append(t)
    if len(terms) == 1:
        return terms[0]
    return z3.Sum(terms)


def rf_to_z3(a):
    n = p_to_z3(a[0])
    if a[1] == P_ONE:
        return n
    return n / p_to_z3(a[1])
