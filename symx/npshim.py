"""The `numpy` the code under test sees: a module object whose functions work on SArr."""
from __future__ import annotations

import contextlib
import types

import z3

from .core import CTX, Unsupported
from .scalar import (SReal, SBool, XInt, Fraction, INF, NINF, NAN, ITE_MODE, sqrt as ssqrt, smin, smax,
                     zbool)
from .arr import (SArr, SSparse, asarr, coerce_elem, dtype_name, float64, float32, int_, bool_, object_, DType,
                  matmul, asum, amax, amin, _elementwise2, _fl, _prod, elem_dtype, common_dtype, _isnan)


def _shape_of(shape):
    if isinstance(shape, (int, XInt)):
        return (int(shape),)
    return tuple(int(s) for s in shape)


def zeros(shape, dtype=None, **_k):
    shp = _shape_of(shape)
    dt = dtype_name(dtype) or "float"
    z = coerce_elem(0, dt) if dt != "bool" else False
    return SArr(shp, [z] * _prod(shp), dt)


def ones(shape, dtype=None, **_k):
    shp = _shape_of(shape)
    dt = dtype_name(dtype) or "float"
    return SArr(shp, [coerce_elem(1, dt)] * _prod(shp), dt)


def empty(shape, dtype=None, **_k):
    return zeros(shape, dtype)


def zeros_like(a, dtype=None):
    a = asarr(a)
    return zeros(a.shape, dtype or a.dtype)


def full(shape, v, dtype=None):
    shp = _shape_of(shape)
    dt = dtype_name(dtype) or elem_dtype(v)
    return SArr(shp, [coerce_elem(v, dt)] * _prod(shp), dt)


def array(o, dtype=None, copy=True, **_k):
    if isinstance(o, SArr):
        r = o.copy() if copy else o
        if dtype is not None and dtype_name(dtype) != r.dtype:
            r = r.astype(dtype)
        return SArr(r.shape, r.data, r.dtype)
    return asarr(o, dtype)


def asarray(o, dtype=None, **_k):
    return asarr(o, dtype)


def copy(a):
    if isinstance(a, SArr):
        return SArr(a.shape, list(a.data), a.dtype)
    if isinstance(a, (SReal, int, float, XInt, bool)):
        return a
    return asarr(a).copy()


def atleast_1d(a):
    if isinstance(a, SArr):
        if a.ndim == 0:
            return SArr((1,), list(a.data), a.dtype)
        return a
    a = asarr(a)
    if a.ndim == 0:
        return SArr((1,), list(a.data), a.dtype)
    return a


def atleast_2d(a):
    a = asarr(a)
    if a.ndim == 0:
        return SArr((1, 1), list(a.data), a.dtype)
    if a.ndim == 1:
        return SArr((1, a.shape[0]), list(a.data), a.dtype)
    return a


def arange(*args, dtype=None):
    args = [int(a) for a in args]
    return SArr((len(range(*args)),), list(range(*args)), "int")


def eye(n, m=None, dtype=None, **_k):
    n = int(n)
    m = n if m is None else int(m)
    r = zeros((n, m), dtype)
    one = coerce_elem(1, r.dtype)
    for i in range(min(n, m)):
        r.data[i * m + i] = one
    return r


def identity(n, dtype=None):
    return eye(n, dtype=dtype)


def repeat(a, repeats, axis=None):
    a = asarr(a)
    repeats = int(repeats)
    if axis is None:
        out = []
        for d in a.data:
            out.extend([d] * repeats)
        return SArr((len(out),), out, a.dtype)
    if axis == 0 and a.ndim == 2:
        m, n = a.shape
        out = []
        for i in range(m):
            for _ in range(repeats):
                out.extend(a.data[i * n:(i + 1) * n])
        return SArr((m * repeats, n), out, a.dtype)
    raise Unsupported("repeat axis")


def hstack(arrs):
    arrs = [asarr(a) for a in arrs]
    if all(a.ndim == 1 for a in arrs):
        out = []
        for a in arrs:
            out.extend(a.data)
        return SArr((len(out),), out, common_dtype(a.dtype for a in arrs))
    arrs = [atleast_2d(a) for a in arrs]
    m = arrs[0].shape[0]
    for a in arrs:
        if a.shape[0] != m:
            raise ValueError("all the input array dimensions except for the concatenation axis must match exactly")
    out = []
    for i in range(m):
        for a in arrs:
            n = a.shape[1]
            out.extend(a.data[i * n:(i + 1) * n])
    return SArr((m, sum(a.shape[1] for a in arrs)), out, common_dtype(a.dtype for a in arrs))


def vstack(arrs):
    arrs = [atleast_2d(asarr(a)) for a in arrs]
    n = arrs[0].shape[1]
    for a in arrs:
        if a.shape[1] != n:
            raise ValueError("all the input array dimensions except for the concatenation axis must match exactly")
    out = []
    for a in arrs:
        out.extend(a.data)
    return SArr((sum(a.shape[0] for a in arrs), n), out, common_dtype(a.dtype for a in arrs))


def concatenate(arrs, axis=0):
    arrs = [asarr(a) for a in arrs]
    if all(a.ndim == 1 for a in arrs):
        return hstack(arrs)
    return vstack(arrs) if axis == 0 else hstack(arrs)


def diag(a, k=0):
    a = asarr(a)
    if k != 0:
        raise Unsupported("diag k")
    if a.ndim == 1:
        n = a.shape[0]
        r = zeros((n, n), a.dtype)
        for i in range(n):
            r.data[i * n + i] = a.data[i]
        return r
    return a.diagonal()


def tril(a, k=0):
    a = asarr(a)
    m, n = a.shape
    z = coerce_elem(0, a.dtype)
    return SArr((m, n), [a.data[i * n + j] if j <= i + k else z for i in range(m) for j in range(n)], a.dtype)


def triu(a, k=0):
    a = asarr(a)
    m, n = a.shape
    z = coerce_elem(0, a.dtype)
    return SArr((m, n), [a.data[i * n + j] if j >= i + k else z for i in range(m) for j in range(n)], a.dtype)


def diff(a, n=1, axis=-1):
    a = asarr(a)
    if a.ndim == 1:
        return SArr((max(a.shape[0] - 1, 0),), [a.data[i + 1] - a.data[i] for i in range(a.shape[0] - 1)], a.dtype)
    m, k = a.shape
    if axis == 0:
        return SArr((max(m - 1, 0), k), [a.data[(i + 1) * k + j] - a.data[i * k + j] for i in range(m - 1) for j in range(k)], a.dtype)
    return SArr((m, max(k - 1, 0)), [a.data[i * k + j + 1] - a.data[i * k + j] for i in range(m) for j in range(k - 1)], a.dtype)


def cumsum(a, axis=None):
    a = asarr(a)
    if a.ndim == 1 or axis is None:
        out, acc = [], None
        for d in a.data:
            acc = d if acc is None else acc + d
            out.append(acc)
        return SArr((len(out),), out, a.dtype)
    m, n = a.shape
    out = list(a.data)
    if axis == 0:
        for i in range(1, m):
            for j in range(n):
                out[i * n + j] = out[(i - 1) * n + j] + a.data[i * n + j]
    else:
        for i in range(m):
            for j in range(1, n):
                out[i * n + j] = out[i * n + j - 1] + a.data[i * n + j]
    return SArr((m, n), out, a.dtype)


def transpose(a):
    return asarr(a).T


def fill_diagonal(a, val):
    a._check_write()
    m, n = a.shape
    v = asarr(val)
    for i in range(min(m, n)):
        a.data[i * n + i] = coerce_elem(v.data[0] if v.ndim == 0 else v.data[i % len(v.data)], a.dtype)


def _map(a, f, dtype=None):
    if isinstance(a, SArr):
        return SArr(a.shape, [f(d) for d in a.data], dtype or a.dtype)
    if isinstance(a, (list, tuple)):
        return _map(asarr(a), f, dtype)
    return f(a)


def sqrt(a):
    return _map(a, lambda d: ssqrt(_fl(d)), "float")


def square(a):
    return _map(a, lambda d: d * d)


def absolute(a):
    return _map(a, lambda d: abs(d))


def negative(a):
    return _map(a, lambda d: -d)


def power(a, p):
    return _elementwise2(a, p, lambda x, y: _fl(x) ** y) if isinstance(a, SArr) or isinstance(p, SArr) else _fl(a) ** p


def sign(a):
    def f(d):
        d = _fl(d)
        s = d.sign_concrete()
        return SReal(NAN) if s is None else SReal.of(s)
    return _map(a, f, "float")


def _where1(c, x, y):
    if isinstance(c, SBool):
        if ITE_MODE[0] and isinstance(x, (SReal, int, float, Fraction)) and isinstance(y, (SReal, int, float, Fraction)):
            x, y = _fl(x), _fl(y)
            from .scalar import FP_MODE
            if FP_MODE[0]:
                from .scalar_fp import SFP
                return SFP(z3.If(c.e, x.z(), y.z()))
            if not x.is_special and not y.is_special:
                return SReal.sym(z3.If(c.e, x.z(), y.z()))
        return x if bool(c) else y
    return x if c else y


def where(cond, x=None, y=None):
    if x is None:
        return asarr(cond).nonzero()
    cond, x, y = asarr(cond), asarr(x), asarr(y)
    tmp = _elementwise2(x, y, lambda a, b: (a, b), out_dtype="object")
    r = _elementwise2(cond, tmp, lambda c, ab: _where1(c, ab[0], ab[1]))
    r.dtype_ = common_dtype([x.dtype, y.dtype])
    r.data = [coerce_elem(d, r.dtype_) for d in r.data]
    return r


def _clip1(v, lo, hi):
    v = _fl(v)
    if lo is not None:
        lo = _fl(lo)
        v = smax(v, lo) if not _isnan(v) else v
    if hi is not None:
        hi = _fl(hi)
        v = smin(v, hi) if not _isnan(v) else v
    return v


def clip(a, a_min=None, a_max=None, out=None):
    scalar = not isinstance(a, (SArr, list, tuple))
    A = asarr(a)
    r = A
    if a_min is not None:
        r = _elementwise2(r, a_min, lambda v, lo: _clip1(v, lo, None), out_dtype="float")
    if a_max is not None:
        r = _elementwise2(r, a_max, lambda v, hi: _clip1(v, None, hi), out_dtype="float")
    if r is A:
        r = A.copy()
    if out is not None:
        out._check_write()
        out.data[:] = r.data
        return out
    if scalar and r.ndim == 0:
        return r.data[0]
    return r


def minimum(a, b):
    r = _elementwise2(a, b, lambda x, y: smin(x, y))
    return r.data[0] if r.ndim == 0 else r


def maximum(a, b):
    r = _elementwise2(a, b, lambda x, y: smax(x, y))
    return r.data[0] if r.ndim == 0 else r


def logical_or(a, b):
    return _elementwise2(a, b, lambda x, y: x | y, out_dtype="bool")


def logical_and(a, b):
    return _elementwise2(a, b, lambda x, y: x & y, out_dtype="bool")


def logical_not(a):
    return ~asarr(a)


def isfinite(a):
    return _map(a, lambda d: not (isinstance(d, SReal) and d.is_special) and not (isinstance(d, float) and (d != d or d in (INF, NINF))), "bool")


def isinf(a):
    def f(d):
        if isinstance(d, SReal):
            return d.is_special and d.v == d.v
        if isinstance(d, float):
            return d in (INF, NINF)
        return False
    return _map(a, f, "bool")


def isnan(a):
    def f(d):
        if isinstance(d, SReal):
            return d.is_special and d.v != d.v
        if isinstance(d, float):
            return d != d
        return False
    return _map(a, f, "bool")


def isscalar(x):
    return isinstance(x, (SReal, XInt, int, float, bool, complex, str, bytes, Fraction))


def isin(a, b):
    a, b = asarr(a), asarr(b)

    def f(d):
        for e in b.data:
            if bool(d == e):
                return True
        return False
    return _map(a, f, "bool")


def count_nonzero(a):
    a = asarr(a)
    sym = [d for d in a.data if isinstance(d, SBool)]
    k = 0
    for d in a.data:
        if isinstance(d, SBool):
            continue
        if isinstance(d, bool):
            k += int(d)
        elif bool(d != 0):
            k += 1
    if not sym:
        return k
    # lazy: the count as a term, no forking (only ever displayed)
    t = z3.RealVal(k)
    for b in sym:
        t = t + z3.If(b.e, z3.RealVal(1), z3.RealVal(0))
    return SReal.sym(t)


def array_equal(a, b):
    try:
        a, b = asarr(a), asarr(b)
    except Exception:
        return False
    if a.shape != b.shape:
        return False
    if ITE_MODE[0]:
        conj = []
        for x, y in zip(a.data, b.data):
            e = (x == y)
            if isinstance(e, SBool):
                conj.append(e.e)
            elif not e:
                return False
        if not conj:
            return True
        return bool(SBool.mk(z3.And(*conj)))
    for x, y in zip(a.data, b.data):
        if not bool(x == y):
            return False
    return True


def allclose(a, b, rtol=1e-5, atol=1e-8):
    a, b = asarr(a), asarr(b)
    if a.shape != b.shape:
        return False
    for x, y in zip(a.data, b.data):
        if not bool(abs(_fl(x) - _fl(y)) <= atol + rtol * abs(_fl(y))):
            return False
    return True


def all_(a, axis=None):
    if axis is not None:
        raise Unsupported("np.all with axis")
    for d in asarr(a).data:
        if not bool(d if isinstance(d, (bool, SBool)) else (_fl(d) != 0)):
            return False
    return True


def any_(a, axis=None):
    if axis is not None:
        raise Unsupported("np.any with axis")
    for d in asarr(a).data:
        if bool(d if isinstance(d, (bool, SBool)) else (_fl(d) != 0)):
            return True
    return False


def issubdtype(a, b):
    an = dtype_name(a)
    if b is SReal or b is float or dtype_name(b) == "float":      # np.floating / float
        return an in ("float", "float32") if b is SReal else an == "float"
    if b is int or dtype_name(b) == "int":
        return an == "int"
    return an == dtype_name(b)


def isclose(a, b, rtol=1e-5, atol=1e-8, equal_nan=False):
    def f(x, y):
        x, y = _fl(x), _fl(y)
        if x.is_special or y.is_special:
            if _isnan(x) or _isnan(y):
                return bool(equal_nan and _isnan(x) and _isnan(y))
            return x.is_special and y.is_special and x.v == y.v
        return abs(x - y) <= SReal.of(Fraction(repr(float(atol)))) + SReal.of(Fraction(repr(float(rtol)))) * abs(y)
    return _elementwise2(asarr(a), asarr(b), f, out_dtype="bool")


def copyto(dst, src, casting="same_kind", where=True):
    if not isinstance(dst, SArr):
        raise TypeError("copyto() argument 1 must be an array")
    if not dst.flags.writeable:
        raise ValueError("assignment destination is read-only")
    r = globals()["where"](where if isinstance(where, SArr) else full(dst.shape, where, dtype="bool"), src, dst)
    if r.shape != dst.shape:
        raise ValueError("could not broadcast input array from shape %s into shape %s" % (r.shape, dst.shape))
    dst.data[:] = [coerce_elem(d, dst.dtype) for d in r.data]


def argsort(a, **_k):
    a = asarr(a)
    if a.ndim != 1:
        raise Unsupported("argsort ndim")
    idx = []
    for i, d in enumerate(a.data):
        # stable insertion: place i after every j with a[j] <= a[i]; NaN last
        pos = len(idx)
        while pos > 0:
            j = idx[pos - 1]
            dj = a.data[j]
            if _isnan(dj) and not _isnan(d):
                pos -= 1
                continue
            if _isnan(d):
                break
            if bool(d < dj):
                pos -= 1
            else:
                break
        idx.insert(pos, i)
    return SArr((len(idx),), idx, "int")


def nonzero(a):
    return asarr(a).nonzero()


def flatnonzero(a):
    a = asarr(a)
    flat = SArr((len(a.data),), list(a.data), a.dtype)
    return flat.nonzero()[0]


_ERRSTATE = dict(divide="warn", over="warn", under="ignore", invalid="warn")


def seterr(all=None, divide=None, over=None, under=None, invalid=None):
    old = dict(_ERRSTATE)
    if all is not None:
        for k in _ERRSTATE:
            _ERRSTATE[k] = all
    for k, v in (("divide", divide), ("over", over), ("under", under), ("invalid", invalid)):
        if v is not None:
            _ERRSTATE[k] = v
    return old


def geterr():
    return dict(_ERRSTATE)


def amax_(a, axis=None):
    return amax(a)


def amin_(a, axis=None):
    return amin(a)


def nanmin(a):
    a = asarr(a)
    if a.ndim == 0:
        return a.data[0]
    return amin(a, skipnan=True)


def nanmax(a):
    a = asarr(a)
    if a.ndim == 0:
        return a.data[0]
    return amax(a, skipnan=True)


def sum_(a, axis=None):
    return asum(a, axis)


def prod(a):
    return asarr(a).prod()


def dot(a, b):
    return matmul(a, b)


def einsum(spec, a, b):
    if spec.replace(" ", "") == "ij,ij->i":
        a, b = asarr(a), asarr(b)
        m, n = a.shape
        out = []
        for i in range(m):
            r = SReal.of(0)
            for j in range(n):
                r = r + a.data[i * n + j] * b.data[i * n + j]
            out.append(r)
        return SArr((m,), out, "float")
    raise Unsupported("einsum " + spec)


def trans(name):
    """Uninterpreted transcendental function, Ackermannised per path."""
    def one(d):
        d = _fl(d)
        if d.is_special:
            raise Unsupported("%s of a special value" % name)
        if d.is_concrete and d.v == 0:
            if name in ("sin",):
                return SReal.of(0)
            if name in ("cos", "exp"):
                return SReal.of(1)
        table = CTX.cache.setdefault(("trans", name), [])
        zt = d.z()
        for (arg, val) in table:
            if arg.get_id() == zt.get_id():
                return SReal(val)
        v = CTX.fresh(name, register=False)
        for (arg, val) in table:
            CTX.constrain_aux(z3.Implies(arg == zt, val == v))
        table.append((zt, v))
        r = SReal(v)
        # remember the application so that terms can be differentiated (symx.diff)
        from . import poly as _P
        CTX.cache.setdefault("trans_apps", {})[_P.atom_for_const(v)] = (name, d)
        return r

    def f(a):
        return _map(a, one, "float")
    return f


class _Finfo:
    def __init__(self, _t=float):
        self.eps = SReal(Fraction(1, 2 ** 52))
        self.tiny = SReal(Fraction(1, 2 ** 1022))
        self.max = SReal(Fraction(2 ** 1024 - 2 ** 971))


@contextlib.contextmanager
def errstate(**_k):
    yield


def linalg_norm(x, ord=None):
    x = asarr(x)
    if ord is None or ord == 2:
        s = SReal.of(0)
        for d in x.data:
            s = s + d * d
        return ssqrt(s)
    if isinstance(ord, (float, SReal)) and (ord == INF or (isinstance(ord, SReal) and ord.v == INF)):
        return amax(absolute(x))
    raise Unsupported("norm ord %r" % (ord,))


def linalg_solve(A, b):
    """Gaussian elimination with (forking) pivot search, exact."""
    A, b = asarr(A), asarr(b)
    n = A.shape[0]
    if A.shape != (n, n):
        raise LinAlgError("Last 2 dimensions of the array must be square")
    M = [[_fl(A.data[i * n + j]) for j in range(n)] for i in range(n)]
    if b.ndim == 1:
        B = [[_fl(b.data[i])] for i in range(n)]
    else:
        B = [[_fl(b.data[i * b.shape[1] + j]) for j in range(b.shape[1])] for i in range(n)]
    k = len(B[0]) if n else 0
    for c in range(n):
        p = None
        for r in range(c, n):
            if bool(M[r][c] != 0):
                p = r
                break
        if p is None:
            raise LinAlgError("Singular matrix")
        M[c], M[p] = M[p], M[c]
        B[c], B[p] = B[p], B[c]
        for r in range(c + 1, n):
            f = M[r][c] / M[c][c]
            for j in range(c, n):
                M[r][j] = M[r][j] - f * M[c][j]
            for j in range(k):
                B[r][j] = B[r][j] - f * B[c][j]
    X = [[None] * k for _ in range(n)]
    for j in range(k):
        for i in range(n - 1, -1, -1):
            s = B[i][j]
            for t in range(i + 1, n):
                s = s - M[i][t] * X[t][j]
            X[i][j] = s / M[i][i]
    if b.ndim == 1:
        return SArr((n,), [X[i][0] for i in range(n)], "float")
    return SArr((n, k), [X[i][j] for i in range(n) for j in range(k)], "float")


def linalg_inv(A):
    A = asarr(A)
    return linalg_solve(A, eye(A.shape[0]))


class LinAlgError(ValueError):
    pass


def assert_equal(a, b, err_msg="", verbose=True):
    if isinstance(a, (SArr, list, tuple)) or isinstance(b, (SArr, list, tuple)):
        A, B = asarr(a), asarr(b)
        if A.shape != B.shape and A.ndim and B.ndim:
            raise AssertionError("Arrays are not equal (shapes %s, %s mismatch)" % (A.shape, B.shape))
        r = _elementwise2(A, B, lambda x, y: x == y)
        for d in r.data:
            if not bool(d):
                raise AssertionError("Arrays are not equal")
        return
    if not bool(a == b):
        raise AssertionError("Items are not equal")


def assert_allclose(a, b, rtol=1e-7, atol=0, **_k):
    A, B = asarr(a), asarr(b)
    r = _elementwise2(A, B, lambda x, y: abs(_fl(x) - _fl(y)) <= atol + rtol * abs(_fl(y)))
    for d in r.data:
        if not bool(d):
            raise AssertionError("Not equal to tolerance rtol=%g, atol=%g" % (rtol, atol))


def build():
    np = types.ModuleType("numpy")
    np.__version__ = "symx"
    g = globals()
    for name in ("zeros", "ones", "empty", "zeros_like", "full", "array", "asarray", "copy", "atleast_1d",
                 "atleast_2d", "arange", "eye", "identity", "repeat", "hstack", "vstack", "concatenate", "diag",
                 "tril", "triu", "diff", "cumsum", "transpose", "fill_diagonal", "sqrt", "square", "absolute",
                 "negative", "power", "sign", "where", "clip", "minimum", "maximum", "logical_or", "logical_and",
                 "logical_not", "isfinite", "isinf", "isnan", "isscalar", "isin", "count_nonzero", "array_equal",
                 "allclose", "isclose", "copyto", "argsort", "nonzero", "flatnonzero", "seterr", "geterr", "nanmin", "nanmax", "prod", "dot", "einsum", "errstate"):
        setattr(np, name, g[name])
    np.abs = absolute
    if not hasattr(np, "all"):
        np.all = all_
    if not hasattr(np, "any"):
        np.any = any_
    np.max = amax_
    np.amax = amax_
    np.min = amin_
    np.amin = amin_
    np.sum = sum_
    np.matmul = matmul
    np.cos = trans("cos")
    np.sin = trans("sin")
    np.exp = trans("exp")
    np.inf = INF
    np.nan = NAN
    np.pi = SReal(z3.Real("pi"))
    np.newaxis = None
    np.float64 = float64
    np.float32 = float32
    np.single = float32
    np.issubdtype = issubdtype
    np.float_ = float64
    np.double = float64
    np.int_ = int_
    np.intc = int_
    np.int64 = int_
    np.bool_ = bool_
    np.object_ = object_
    np.ndarray = SArr
    np.finfo = _Finfo
    np.floating = SReal
    np.integer = int
    np.number = (SReal, int)
    np.generic = SReal
    linalg = types.ModuleType("numpy.linalg")
    linalg.norm = linalg_norm
    linalg.solve = linalg_solve
    linalg.inv = linalg_inv
    linalg.LinAlgError = LinAlgError
    np.linalg = linalg
    testing = types.ModuleType("numpy.testing")
    testing.assert_equal = assert_equal
    testing.assert_array_equal = assert_equal
    testing.assert_allclose = assert_allclose
    np.testing = testing
    typing_ = types.ModuleType("numpy.typing")
    class _NDArray:
        def __class_getitem__(cls, item):
            return cls
    typing_.NDArray = _NDArray
    np.typing = typing_
    return np
