"""Load /repo/lbfgsb/*.py from source into a private module registry, resolving
numpy / scipy to the shims.  The source text is read at call time: the encoding is
regenerated from the working tree on every run."""
from __future__ import annotations

import builtins
import hashlib
import os
import sys
import types

from . import npshim, spshim

REPO = os.environ.get("SYMX_REPO", "/repo")


class World:
    """One independent copy ("namespace") of the package + shims."""

    def __init__(self, repo=None):
        self.repo = repo or REPO
        self.np = npshim.build()
        self.sp = spshim.build(self.np)
        self.modules = {}
        self.sources = {}      # module name -> (path, sha1)
        self.ext = {
            "numpy": self.np,
            "numpy.typing": self.np.typing,
            "numpy.linalg": self.np.linalg,
            "numpy.testing": self.np.testing,
            "scipy": self.sp,
            "scipy.linalg": self.sp.linalg,
            "scipy.sparse": self.sp.sparse,
            "scipy.optimize": self.sp.optimize,
            "scipy.optimize._numdiff": self.sp.optimize._numdiff,
            "scipy.optimize._constraints": self.sp.optimize._constraints,
            "scipy.optimize._dcsrch": self.sp.optimize._dcsrch,
        }
        self._builtins = dict(vars(builtins))
        self._builtins["__import__"] = self._import

    # the import hook seen by repo code
    def _import(self, name, globals=None, locals=None, fromlist=(), level=0):
        if level != 0:
            pkg = (globals or {}).get("__package__") or ""
            base = pkg.rsplit(".", level - 1)[0] if level > 1 else pkg
            name = base + ("." + name if name else "")
        top = name.split(".")[0]
        if top in ("numpy", "scipy"):
            if name not in self.ext:
                raise ImportError("symx: %s is not shimmed" % name)
            if fromlist:
                return self.ext[name]
            return self.ext[top]
        if top == "lbfgsb":
            mod = self.load(name)
            if fromlist:
                for f in fromlist:
                    if not hasattr(mod, f):
                        try:
                            setattr(mod, f, self.load(name + "." + f))
                        except ImportError:
                            pass
                return mod
            return self.load(top)
        return builtins.__import__(name, globals, locals, fromlist, level)

    def load(self, name):
        if name in self.modules:
            return self.modules[name]
        rel = name.split(".")
        base = os.path.join(self.repo, *rel)
        if os.path.isdir(base):
            path = os.path.join(base, "__init__.py")
            is_pkg = True
        else:
            path = base + ".py"
            is_pkg = False
        if not os.path.exists(path):
            raise ImportError("symx: no module " + name)
        with open(path) as f:
            src = f.read()
        mod = types.ModuleType(name)
        mod.__file__ = path
        mod.__package__ = name if is_pkg else name.rpartition(".")[0]
        if is_pkg:
            mod.__path__ = [base]
        mod.__dict__["__builtins__"] = self._builtins
        self.modules[name] = mod
        self.sources[name] = (path, hashlib.sha1(src.encode()).hexdigest())
        if name == "lbfgsb":
            # the package __init__ only re-exports; load submodules lazily instead of executing
            # it eagerly so that a harness pays only for what it uses
            pass
        # make sure the parent package object exists (without running its __init__)
        if "." in name:
            parent = name.rpartition(".")[0]
            if parent not in self.modules:
                pm = types.ModuleType(parent)
                pm.__path__ = [os.path.join(self.repo, *parent.split("."))]
                pm.__package__ = parent
                pm.__dict__["__builtins__"] = self._builtins
                self.modules[parent] = pm
            setattr(self.modules[parent], name.rpartition(".")[2], mod)
        if not (name == "lbfgsb"):
            exec(compile(src, path, "exec"), mod.__dict__)
        return mod

    def functions_encoded(self, qualnames):
        """evidence helper: [(file, qualname, sha1-of-file)]"""
        out = []
        for q in qualnames:
            modname, _, fn = q.rpartition(".")
            path, sha = self.sources.get(modname, (None, None))
            out.append(dict(file=path, qualname=q, sha1_of_file=sha))
        return out
