"""Differentiate the term a function produced (normal form P/Q over atoms) with respect to input atoms.

Rules: polynomial/quotient rules on the normal form; chain rule through the uninterpreted
sin/cos/exp applications recorded by npshim.trans and through square-root atoms."""
from __future__ import annotations

from fractions import Fraction

from .core import CTX, Unsupported
from .scalar import SReal, Sym
from . import poly as P


def d_atom(i, wrt, np, memo):
    """d(atom i)/d(atom wrt) as SReal."""
    key = (i, wrt)
    if key in memo:
        return memo[key]
    at = P.ATOMS[i]
    if i == wrt:
        r = SReal.of(1)
    elif at.kind == "psqrt":
        r = SReal.of(0)
    elif at.kind == "gsqrt":
        rad = SReal(Sym(at.radicand))
        me = SReal(Sym((P.p_atom(i), P.P_ONE), at.zc))
        r = d_term(rad, wrt, np, memo) / (SReal.of(2) * me)
    elif at.kind == "var":
        app = CTX.cache.get("trans_apps", {}).get(i)
        if app is None:
            r = SReal.of(0)          # another input / constant symbol (pi)
        else:
            name, arg = app
            darg = d_term(arg, wrt, np, memo)
            if darg.is_concrete and darg.v == 0:
                r = SReal.of(0)
            elif name == "cos":
                r = -np.sin(arg) * darg
            elif name == "sin":
                r = np.cos(arg) * darg
            elif name == "exp":
                r = np.exp(arg) * darg
            else:
                raise Unsupported("derivative of " + name)
    else:
        raise Unsupported("derivative through an opaque term")
    memo[key] = r
    return r


def d_poly(p, wrt, np, memo):
    tot = SReal.of(0)
    for m, c in p.items():
        for k, (a, e) in enumerate(m):
            da = d_atom(a, wrt, np, memo)
            if da.is_concrete and da.v == 0:
                continue
            rest = list(m)
            if e == 1:
                rest.pop(k)
            else:
                rest[k] = (a, e - 1)
            term = SReal(Sym(({tuple(rest): c * e}, P.P_ONE))) if rest or True else None
            if not rest:
                term = SReal(c * e)
            tot = tot + term * da
    return tot


def d_term(t, wrt, np, memo=None):
    """d t / d atom `wrt` for an SReal t."""
    if memo is None:
        memo = {}
    t = SReal.of(t)
    if t.is_concrete:
        return SReal.of(0)
    if t.is_special or t.v.rf is None:
        raise Unsupported("cannot differentiate this value")
    Pn, Q = t.v.rf
    dP = d_poly(Pn, wrt, np, memo)
    if Q == P.P_ONE:
        return dP
    dQ = d_poly(Q, wrt, np, memo)
    Ps, Qs = SReal(Sym((Pn, P.P_ONE))), SReal(Sym((Q, P.P_ONE)))
    return (dP * Qs - Ps * dQ) / (Qs * Qs)
