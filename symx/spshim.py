"""The `scipy` the code under test sees.

* scipy.linalg.cholesky / solve_triangular: textbook algorithms over shim scalars.
* scipy.sparse.lil_matrix: dense-backed.
* scipy.optimize.OptimizeResult: a dict with attribute access (SciPy's own is that too).
* scipy.optimize.LbfgsInvHessProduct and scipy.optimize._dcsrch: SciPy's *source text*
  from the interpreter the package really runs on, executed against the shim numpy.
* scipy.optimize._numdiff.approx_derivative: replaceable stub (see stubs.py).
"""
from __future__ import annotations

import ast
import os
import types

from .core import CTX, Unsupported
from .scalar import SReal, sqrt as ssqrt
from .arr import SArr, SSparse, asarr, _fl
from . import npshim

SCIPY_DIR = os.environ.get("SYMX_SCIPY_DIR", "/venv/lib/python3.12/site-packages/scipy")


# harness switch: take positive definiteness of factorised matrices as an assumption (listed in the evidence)
TRUST_PD = [False]


def cholesky(a, lower=False, overwrite_a=False, check_finite=True):
    a = asarr(a)
    n = a.shape[0]
    if a.ndim != 2 or a.shape[1] != n:
        raise ValueError("Input array needs to be a square matrix.")
    A = [[_fl(a.data[i * n + j]) for j in range(n)] for i in range(n)]
    L = [[SReal.of(0)] * n for _ in range(n)]
    for j in range(n):
        s = A[j][j]
        for k in range(j):
            s = s - L[j][k] * L[j][k]
        if TRUST_PD[0] and not s.is_special:
            r = s > 0
            if r is False:
                raise npshim.LinAlgError("%d-th leading minor of the array is not positive definite" % (j + 1))
            if r is not True:
                CTX.assume(r.e, check=False)
        elif s.is_special or not bool(s > 0):
            raise npshim.LinAlgError("%d-th leading minor of the array is not positive definite" % (j + 1))
        d = ssqrt(s)
        L[j][j] = d
        for i in range(j + 1, n):
            # SciPy reads only one triangle: the lower one for lower=True, else the upper one
            t = A[i][j] if lower else A[j][i]
            for k in range(j):
                t = t - L[i][k] * L[j][k]
            L[i][j] = t / d
    if lower:
        return SArr((n, n), [L[i][j] for i in range(n) for j in range(n)], "float")
    return SArr((n, n), [L[j][i] for i in range(n) for j in range(n)], "float")


def solve_triangular(a, b, trans=0, lower=False, unit_diagonal=False, overwrite_b=False, check_finite=True):
    a, b = asarr(a), asarr(b)
    if trans in (1, "T", 2, "C"):
        a = a.T
        lower = not lower
    n = a.shape[0]
    if a.ndim != 2 or a.shape[1] != n:
        raise ValueError("expected square matrix")
    if b.shape[0] != n:
        raise ValueError("shapes of a %s and b %s are incompatible" % (a.shape, b.shape))
    A = [[_fl(a.data[i * n + j]) for j in range(n)] for i in range(n)]
    cols = 1 if b.ndim == 1 else b.shape[1]
    B = [[_fl(b.data[i * cols + j]) for j in range(cols)] for i in range(n)]
    X = [[None] * cols for _ in range(n)]
    order = range(n) if lower else range(n - 1, -1, -1)
    for j in range(cols):
        for i in order:
            s = B[i][j]
            rng = range(i) if lower else range(i + 1, n)
            for k in rng:
                s = s - A[i][k] * X[k][j]
            d = A[i][i]
            if not unit_diagonal:
                if TRUST_PD[0] and not d.is_special:
                    r = d == 0
                    if r is True:
                        raise npshim.LinAlgError("singular matrix: resolution failed at diagonal %d" % i)
                    if r is not False:
                        import z3 as _z3
                        CTX.assume(_z3.Not(r.e), check=False)
                elif not d.is_special and bool(d == 0):
                    raise npshim.LinAlgError("singular matrix: resolution failed at diagonal %d" % i)
                s = s / d
            X[i][j] = s
    if b.ndim == 1:
        return SArr((n,), [X[i][0] for i in range(n)], "float")
    return SArr((n, cols), [X[i][j] for i in range(n) for j in range(cols)], "float")


def lil_matrix(shape, dtype=None):
    m, n = int(shape[0]), int(shape[1])
    return SSparse((m, n), [SReal.of(0)] * (m * n), "float")


class OptimizeResult(dict):
    def __getattr__(self, name):
        try:
            return self[name]
        except KeyError as e:
            raise AttributeError(name) from e

    __setattr__ = dict.__setitem__
    __delattr__ = dict.__delitem__

    def __dir__(self):
        return list(self.keys())


class LinearOperator:
    """The part of scipy.sparse.linalg.LinearOperator that LbfgsInvHessProduct relies on."""

    def __init__(self, dtype=None, shape=None):
        self.dtype = dtype
        self.shape = tuple(shape)

    def matvec(self, x):
        x = asarr(x)
        n = self.shape[1]
        if x.shape != (n,) and x.shape != (n, 1):
            raise ValueError("dimension mismatch")
        return self._matvec(x)

    def matmat(self, X):
        return self._matmat(asarr(X))

    def dot(self, x):
        x = asarr(x)
        return self.matvec(x) if x.ndim == 1 else self.matmat(x)

    __matmul__ = dot
    __call__ = dot


def _extract(src_path, names):
    """Return source segments of top-level defs/classes `names` from a file."""
    with open(src_path) as f:
        src = f.read()
    tree = ast.parse(src)
    out = {}
    for node in tree.body:
        if isinstance(node, (ast.ClassDef, ast.FunctionDef)) and node.name in names:
            out[node.name] = ast.get_source_segment(src, node)
    return out, src


def old_bound_to_new(bounds):
    """scipy.optimize._constraints.old_bound_to_new re-stated over shim scalars (None -> ±inf)."""
    np = NP[0]
    lb, ub = zip(*bounds)
    lb = np.array([SReal.of(x.item() if hasattr(x, "item") else x) if x is not None else SReal.of(-np.inf) for x in lb])
    ub = np.array([SReal.of(x.item() if hasattr(x, "item") else x) if x is not None else SReal.of(np.inf) for x in ub])
    return lb, ub


NP = [None]


def approx_derivative_unstubbed(*a, **k):
    raise Unsupported("approx_derivative called without a stub")


def build(np):
    NP[0] = np
    sp = types.ModuleType("scipy")
    with open(os.path.join(SCIPY_DIR, "version.py")) as f:
        ns = {}
        exec(f.read(), ns)
    sp.__version__ = ns.get("version") or ns.get("full_version") or ns.get("short_version")
    linalg = types.ModuleType("scipy.linalg")
    linalg.cholesky = cholesky
    linalg.solve_triangular = solve_triangular
    linalg.LinAlgError = npshim.LinAlgError
    sp.linalg = linalg
    sparse = types.ModuleType("scipy.sparse")
    sparse.lil_matrix = lil_matrix
    sparse.spmatrix = SSparse
    sp.sparse = sparse
    optimize = types.ModuleType("scipy.optimize")
    optimize.OptimizeResult = OptimizeResult
    # --- LbfgsInvHessProduct from SciPy's source
    segs, _ = _extract(os.path.join(SCIPY_DIR, "optimize", "_lbfgsb_py.py"), {"LbfgsInvHessProduct"})
    ns = {"np": np, "LinearOperator": LinearOperator, "__name__": "scipy.optimize._lbfgsb_py"}
    exec(compile(segs["LbfgsInvHessProduct"], os.path.join(SCIPY_DIR, "optimize", "_lbfgsb_py.py"), "exec"), ns)
    optimize.LbfgsInvHessProduct = ns["LbfgsInvHessProduct"]
    # --- _dcsrch from SciPy's source
    path = os.path.join(SCIPY_DIR, "optimize", "_dcsrch.py")
    dcs = types.ModuleType("scipy.optimize._dcsrch")
    with open(path) as f:
        src = f.read()
    src = src.replace("import numpy as np", "np = __symx_np__")
    dcs.__dict__["__symx_np__"] = np
    exec(compile(src, path, "exec"), dcs.__dict__)
    optimize._dcsrch = dcs
    numdiff = types.ModuleType("scipy.optimize._numdiff")
    numdiff.approx_derivative = approx_derivative_unstubbed
    optimize._numdiff = numdiff
    cons = types.ModuleType("scipy.optimize._constraints")
    cons.old_bound_to_new = old_bound_to_new
    optimize._constraints = cons
    sp.optimize = optimize
    return sp
