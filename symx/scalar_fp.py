"""Mode-F scalars: IEEE-754 binary64 values as z3 FloatingPoint terms (round-nearest-even), bit-precise.

SFP subclasses SReal so that the array shim treats it as a float element; every operation is the IEEE
operation NumPy performs on float64 (concrete operands are computed with Python floats, which are binary64)."""
from __future__ import annotations

import math

import z3

from .core import CTX, Unsupported
from .scalar import SReal, SBool, XInt, Fraction, ITE_MODE

F64 = z3.Float64()
RNE = z3.RNE()


def fpval(c):
    return z3.FPVal(float(c), F64)


class SFP(SReal):
    __slots__ = ()

    def __init__(self, v):
        # v: python float (concrete) or z3 FPRef
        object.__setattr__(self, "v", v) if False else None
        self.v = v

    @staticmethod
    def of(c):
        if isinstance(c, SFP):
            return c
        if isinstance(c, SReal):
            if c.is_concrete or c.is_special:
                return SFP(float(c.v))
            raise Unsupported("exact-real value in floating-point mode")
        if isinstance(c, bool):
            return SFP(float(c))
        if isinstance(c, (int, float)):
            return SFP(float(c))
        if isinstance(c, XInt):
            return SFP(float(c.i))
        if isinstance(c, Fraction):
            return SFP(float(c))
        if isinstance(c, z3.FPRef):
            return SFP(c)
        if isinstance(c, SBool):
            return SFP(z3.If(c.e, fpval(1.0), fpval(0.0)))
        if hasattr(c, "shape") and getattr(c, "shape", None) == ():
            return SFP.of(c.item())
        raise Unsupported("cannot make an FP scalar from %r" % (type(c),))

    # ---- classification
    @property
    def is_concrete(self):
        return isinstance(self.v, float) and not (math.isinf(self.v) or math.isnan(self.v))

    @property
    def is_special(self):
        return isinstance(self.v, float) and (math.isinf(self.v) or math.isnan(self.v))

    @property
    def is_symbolic(self):
        return not isinstance(self.v, float)

    def is_algebraic_const(self):
        return False

    def z(self):
        return fpval(self.v) if isinstance(self.v, float) else self.v

    def eval_float(self, ctx=None):
        if isinstance(self.v, float):
            return self.v
        c = ctx or CTX
        c._ensure_model()
        val = c.model.eval(self.v, model_completion=True)
        return fp_to_float(val)

    def _const_sign(self):
        if isinstance(self.v, float):
            if self.v != self.v:
                return None
            return (self.v > 0) - (self.v < 0)
        return None

    def sign_concrete(self):
        s = self._const_sign()
        if s is not None or isinstance(self.v, float):
            return s
        if CTX.decide(z3.fpGT(self.v, fpval(0.0))):
            return 1
        if CTX.decide(z3.fpLT(self.v, fpval(0.0))):
            return -1
        return 0

    # ---- arithmetic
    def _co(self, o):
        if isinstance(o, SFP):
            return o
        if isinstance(o, (int, float, Fraction, XInt, bool, SBool, SReal)):
            return SFP.of(o)
        return None

    def _bin(self, o, pyop, zop, rev=False):
        o = self._co(o)
        if o is None:
            return NotImplemented
        a, b = (o, self) if rev else (self, o)
        if isinstance(a.v, float) and isinstance(b.v, float):
            try:
                return SFP(pyop(a.v, b.v))
            except ZeroDivisionError:
                x, y = a.v, b.v
                if x != x or x == 0:
                    return SFP(float("nan"))
                neg = (x < 0) != (math.copysign(1.0, y) < 0)
                return SFP(float("-inf") if neg else float("inf"))
            except OverflowError:
                return SFP(float("inf"))
        return SFP(zop(RNE, a.z(), b.z()))

    def __add__(self, o): return self._bin(o, lambda x, y: x + y, z3.fpAdd)
    def __radd__(self, o): return self._bin(o, lambda x, y: x + y, z3.fpAdd, True)
    def __sub__(self, o): return self._bin(o, lambda x, y: x - y, z3.fpSub)
    def __rsub__(self, o): return self._bin(o, lambda x, y: x - y, z3.fpSub, True)
    def __mul__(self, o): return self._bin(o, lambda x, y: x * y, z3.fpMul)
    def __rmul__(self, o): return self._bin(o, lambda x, y: x * y, z3.fpMul, True)
    def __truediv__(self, o): return self._bin(o, lambda x, y: x / y, z3.fpDiv)
    def __rtruediv__(self, o): return self._bin(o, lambda x, y: x / y, z3.fpDiv, True)

    def __neg__(self):
        return SFP(-self.v) if isinstance(self.v, float) else SFP(z3.fpNeg(self.v))

    def __pos__(self):
        return self

    def __abs__(self):
        return SFP(abs(self.v)) if isinstance(self.v, float) else SFP(z3.fpAbs(self.v))

    def __pow__(self, p):
        if isinstance(p, SReal):
            p = float(p.v) if not p.is_symbolic else None
        if isinstance(p, XInt):
            p = p.i
        if p is None or p != int(p) or p < 0:
            raise Unsupported("FP power %r" % (p,))
        r = SFP(1.0)
        for _ in range(int(p)):
            r = r * self
        return r

    def _is_zero(self):
        if isinstance(self.v, float):
            return self.v == 0
        return CTX.decide(z3.fpIsZero(self.v))

    # ---- comparisons (IEEE: any comparison with NaN is false, != is true)
    def _cmp(self, o, op):
        o = self._co(o)
        if o is None:
            return NotImplemented
        a, b = self.v, o.v
        if isinstance(a, float) and isinstance(b, float):
            return {"lt": a < b, "le": a <= b, "gt": a > b, "ge": a >= b, "eq": a == b, "ne": a != b}[op]
        za, zb = self.z(), o.z()
        f = {"lt": z3.fpLT, "le": z3.fpLEQ, "gt": z3.fpGT, "ge": z3.fpGEQ, "eq": z3.fpEQ}
        if op == "ne":
            return SBool.mk(z3.Not(z3.fpEQ(za, zb)))
        return SBool.mk(f[op](za, zb))

    __hash__ = object.__hash__

    def __float__(self):
        if isinstance(self.v, float):
            return self.v
        raise Unsupported("float() of a symbolic FP value")

    def __repr__(self):
        return "F(%r)" % (self.v,) if isinstance(self.v, float) else "F<%s>" % (str(self.v)[:60],)

    def __format__(self, spec):
        return format(self.v, spec) if isinstance(self.v, float) else "<fp>"


def fp_to_float(val):
    """z3 FP numeral -> python float."""
    if z3.is_fp_value(val):
        if val.isNaN():
            return float("nan")
        if val.isInf():
            return float("-inf") if val.isNegative() else float("inf")
        # exact via the IEEE bit pattern
        import struct
        bv = z3.simplify(z3.fpToIEEEBV(val))
        return struct.unpack("<d", struct.pack("<Q", bv.as_long()))[0]
    raise ValueError("not an FP value: %r" % (val,))


def fsqrt(x):
    x = SFP.of(x)
    if isinstance(x.v, float):
        return SFP(math.sqrt(x.v) if x.v >= 0 else float("nan"))
    return SFP(z3.fpSqrt(RNE, x.v))


def fmin(a, b):
    """NumPy minimum: NaN-propagating; here operands are non-NaN by the harness assumptions."""
    a, b = SFP.of(a), SFP.of(b)
    c = a <= b
    if isinstance(c, bool):
        return a if c else b
    if ITE_MODE[0]:
        k = CTX.known(c.e)
        if k is not None:
            return a if k else b
        return SFP(z3.If(c.e, a.z(), b.z()))
    return a if bool(c) else b


def fmax(a, b):
    a, b = SFP.of(a), SFP.of(b)
    c = a >= b
    if isinstance(c, bool):
        return a if c else b
    if ITE_MODE[0]:
        k = CTX.known(c.e)
        if k is not None:
            return a if k else b
        return SFP(z3.If(c.e, a.z(), b.z()))
    return a if bool(c) else b
