"""symx core: path context, solver wrapper, dynamic-symbolic-execution explorer.

A *path* is one execution of a harness function under a decision prefix.  Every
symbolic Boolean that reaches ``bool()`` asks ``CTX.decide``; decisions beyond
the prefix are chosen by the current model (concolic) and the other polarity is
checked for feasibility with one solver query; feasible alternatives go to the
work list.  Nothing here knows about numpy or lbfgsb.
"""
from __future__ import annotations

import os
import sys
import time
from fractions import Fraction

import z3

# --------------------------------------------------------------------------
# exceptions used to steer paths.  They derive from BaseException so that the
# code under test (which has `except Exception`-like handlers) cannot swallow
# them.


class PathAbort(BaseException):
    """The current path is infeasible / killed by an assumption."""


class Unsupported(BaseException):
    """The shim cannot model a construct: the whole check is inconclusive."""


class BudgetExceeded(BaseException):
    pass


# --------------------------------------------------------------------------
# solver


DEFAULT_TIMEOUT_MS = int(os.environ.get("SYMX_TIMEOUT_MS", "20000"))
# set by mode-F harnesses: queries are over IEEE binary64 terms (QF_FP)
FP_SOLVER = [False]


_SLOWDIR = os.environ.get("SYMX_SLOWDIR")
_SLOWSEC = float(os.environ.get("SYMX_SLOWSEC", "5"))


class Stats:
    def __init__(self):
        self.sat = 0
        self.unsat = 0
        self.unknown = 0
        self.time = 0.0
        self.slowest = 0.0
        self.model_hits = 0
        self.cache_hits = 0

    def as_dict(self):
        return dict(sat=self.sat, unsat=self.unsat, unknown=self.unknown,
                    solver_time_s=round(self.time, 3), slowest_query_s=round(self.slowest, 3),
                    decided_by_model=self.model_hits, decided_by_cache=self.cache_hits)

    def add(self, other):
        for k in ("sat", "unsat", "unknown", "time", "model_hits", "cache_hits"):
            setattr(self, k, getattr(self, k) + getattr(other, k))
        self.slowest = max(self.slowest, other.slowest)


def _is_linear_hint(constraints):
    # cheap syntactic test: does any constraint contain a non-linear operator?
    seen = set()
    stack = list(constraints)
    while stack:
        e = stack.pop()
        i = e.get_id()
        if i in seen:
            continue
        seen.add(i)
        k = e.decl().kind()
        if k == z3.Z3_OP_MUL:
            nonconst = [c for c in e.children() if not z3.is_rational_value(c)]
            if len(nonconst) > 1:
                return False
        elif k in (z3.Z3_OP_DIV, z3.Z3_OP_POWER):
            ch = e.children()
            if not z3.is_rational_value(ch[1]):
                return False
            if k == z3.Z3_OP_POWER:
                return False
        stack.extend(e.children())
    return True


def solve(constraints, stats: Stats, timeout_ms=None, want_model=True, _no_abstraction=False):
    """One fresh, non-incremental query.  Returns (status, model|None)."""
    timeout_ms = timeout_ms or DEFAULT_TIMEOUT_MS
    cs = [c for c in constraints if not (isinstance(c, bool) and c)]
    if any(isinstance(c, bool) and not c for c in cs):
        return "unsat", None
    cs = [c for c in cs if not isinstance(c, bool)]
    t0 = time.time()
    if FP_SOLVER[0]:
        if not _no_abstraction:
            # cheap first: unsat of a term-depth abstraction implies unsat of the query
            for k in (2, 3):
                try:
                    acs = abstract_fp(cs, k)
                except Exception:
                    break
                sa = z3.SolverFor("QF_FP")
                sa.set("timeout", 8000)
                sa.add(*acs)
                ra = sa.check()
                if ra == z3.unsat:
                    dt = time.time() - t0
                    stats.time += dt
                    stats.slowest = max(stats.slowest, dt)
                    stats.unsat += 1
                    stats.by_abstraction = getattr(stats, "by_abstraction", 0) + 1
                    return "unsat", None
        s = z3.SolverFor("QF_FP")
        s.set("timeout", timeout_ms)
        s.add(*cs)
        if os.environ.get("SYMX_FPLOG"):
            sys.stderr.write("[fp] full query want_model=%s n=%d after %.1fs of abstraction\n" % (want_model, len(cs), time.time() - t0))
        if not want_model:
            # status only: an external z3 with a hard wall-clock limit (the in-process timeout is not honoured
            # during bit-blasting)
            r = _fp_external(s, max(5, int(timeout_ms / 1000)))
        else:
            r = s.check()
        dt = time.time() - t0
        stats.time += dt
        stats.slowest = max(stats.slowest, dt)
        if r == z3.sat:
            stats.sat += 1
            return "sat", (s.model() if want_model else None)
        if r == z3.unsat:
            stats.unsat += 1
            return "unsat", None
        stats.unknown += 1
        return "unknown", None
    lin = _is_linear_hint(cs)
    s = z3.SolverFor("QF_LRA") if lin else z3.SolverFor("QF_NRA")
    s.set("timeout", timeout_ms)
    s.add(*cs)
    r = s.check()
    if r == z3.unknown and not lin:
        # second opinion from the general solver (sometimes simplex+bounds wins)
        s2 = z3.Solver()
        s2.set("timeout", max(1000, timeout_ms // 4))
        s2.add(*cs)
        r2 = s2.check()
        if r2 != z3.unknown:
            r, s = r2, s2
    dt = time.time() - t0
    if _SLOWDIR and dt > _SLOWSEC:
        try:
            os.makedirs(_SLOWDIR, exist_ok=True)
            with open(os.path.join(_SLOWDIR, "q_%d_%d_%s.smt2" % (os.getpid(), int(t0 * 1000) % 10 ** 9, r)), "w") as f:
                f.write("; %.2fs %s\n" % (dt, r))
                f.write(s.to_smt2())
        except Exception:
            pass
    stats.time += dt
    stats.slowest = max(stats.slowest, dt)
    if r == z3.sat:
        stats.sat += 1
        return "sat", (s.model() if want_model else None)
    if r == z3.unsat:
        stats.unsat += 1
        return "unsat", None
    stats.unknown += 1
    return "unknown", None


def abstract_fp(constraints, k):
    """Replace every floating-point sub-term nested deeper than k arithmetic operations (counted from the
    atoms' operands) by a fresh variable, consistently."""
    repl = {}
    counter = [0]

    memo = {}

    def height(e):
        i = e.get_id()
        if i in memo:
            return memo[i]
        if not e.children() or z3.is_fp_value(e):
            h = 0
        else:
            h = 1 + max(height(c) for c in e.children())
        memo[i] = h
        return h

    def walk(e, depth):
        if z3.is_fp(e) and e.children() and not z3.is_fp_value(e):
            if depth >= k and height(e) >= 1:
                i = e.get_id()
                if i not in repl:
                    counter[0] += 1
                    repl[i] = (e, z3.FP("abs!%d_%d" % (k, counter[0]), e.sort()))
                return
            for c in e.children():
                walk(c, depth + 1)
            return
        for c in e.children():
            walk(c, depth if not z3.is_fp(e) else depth + 1)
    for c in constraints:
        if not isinstance(c, bool):
            walk(c, 0)
    pairs = list(repl.values())
    out = []
    for c in constraints:
        out.append(c if isinstance(c, bool) else z3.substitute(c, *pairs))
    return out


def _vars_of(e):
    out = set()
    seen = set()
    stack = [e]
    while stack:
        t = stack.pop()
        i = t.get_id()
        if i in seen:
            continue
        seen.add(i)
        if z3.is_const(t) and t.decl().kind() == z3.Z3_OP_UNINTERPRETED:
            out.add(t.decl().name())
        stack.extend(t.children())
    return out


def _fp_external(solver, seconds):
    import subprocess
    import tempfile
    fd, path = tempfile.mkstemp(suffix=".smt2", prefix="symx_fp_")
    try:
        with os.fdopen(fd, "w") as f:
            f.write(solver.to_smt2())
        try:
            p = subprocess.run(["z3-new", "-T:%d" % seconds, "-smt2", path], capture_output=True, text=True, timeout=seconds + 10)
            out = p.stdout.strip().splitlines()
            first = out[0].strip() if out else ""
        except (subprocess.TimeoutExpired, FileNotFoundError):
            first = "unknown"
        if first == "sat":
            return z3.sat
        if first == "unsat":
            return z3.unsat
        return z3.unknown
    finally:
        try:
            os.remove(path)
        except OSError:
            pass


def z3val_to_fraction(v):
    if z3.is_rational_value(v):
        return Fraction(v.numerator_as_long(), v.denominator_as_long())
    if z3.is_algebraic_value(v):
        return None
    return None


def z3val_to_float(v):
    if z3.is_rational_value(v):
        return v.numerator_as_long() / v.denominator_as_long()
    if z3.is_algebraic_value(v):
        a = v.approx(30)
        return a.numerator_as_long() / a.denominator_as_long()
    if z3.is_true(v):
        return True
    if z3.is_false(v):
        return False
    raise ValueError("not a value: %r" % (v,))


# --------------------------------------------------------------------------
# the path context


class Ctx:
    """State of one path.  A single global instance is (re)initialised per path."""

    def __init__(self):
        self.reset([], None)
        self.stats = Stats()
        self.fresh_counter = 0
        self.max_decisions = 4000

    def reset(self, prefix, timeout_ms=None):
        self.prefix = list(prefix)
        self.decisions = []          # booleans taken so far (prefix + fresh)
        self.pc = []                 # z3 constraints of the path
        self.model = None            # z3 model of pc, or None
        self.model_valid = False
        self.decided = {}            # expr id -> bool
        self.keep = []               # keep exprs alive so ids stay unique
        self.alternatives = []       # prefixes to explore
        self.inputs = {}             # name -> z3 const (declared symbolic inputs)
        self.events = []             # free-form events of the path
        self.obligations = []        # results of ctx.check()
        self.maybe_infeasible = False
        self.timeout_ms = timeout_ms
        self.fresh_counter = 0
        self.names = set()
        self.nforced = 0
        self.cache = {}              # per-path memo (sqrt terms, stub calls...)

    # -- symbols ---------------------------------------------------------
    def real(self, name):
        if name in self.names:
            raise ValueError("duplicate symbol " + name)
        self.names.add(name)
        v = z3.Real(name)
        self.inputs[name] = v
        return v

    def fresh(self, hint="t", register=False):
        self.fresh_counter += 1
        name = "%s!%d" % (hint, self.fresh_counter)
        v = z3.Real(name)
        if register:
            self.inputs[name] = v
        return v

    def fp(self, name):
        """declare a symbolic IEEE binary64 input"""
        if name in self.names:
            raise ValueError("duplicate symbol " + name)
        self.names.add(name)
        v = z3.FP(name, z3.Float64())
        self.inputs[name] = v
        return v

    def fresh_bool(self, hint="b"):
        self.fresh_counter += 1
        return z3.Bool("%s!%d" % (hint, self.fresh_counter))

    # -- model helpers ---------------------------------------------------
    def _model_eval(self, e):
        if self.model is None or not self.model_valid:
            return None
        v = self.model.eval(e, model_completion=True)
        if z3.is_true(v):
            return True
        if z3.is_false(v):
            return False
        return None

    def _ensure_model(self):
        if self.model is not None and self.model_valid:
            return True
        if FP_SOLVER[0] and not getattr(self, "fp_want_witness", False):
            st, m = solve(self.pc, self.stats, self.timeout_ms, want_model=False)
            if st == "unsat":
                raise PathAbort("path condition unsat")
            if st == "unknown":
                self.maybe_infeasible = True
            self.fp_feasible = st == "sat"
            return False
        st, m = solve(self.pc, self.stats, self.timeout_ms)
        if st == "sat":
            self.model, self.model_valid = m, True
            return True
        if st == "unsat":
            raise PathAbort("path condition unsat")
        self.maybe_infeasible = True
        self.model, self.model_valid = None, False
        return False

    # -- decisions -------------------------------------------------------
    def decide(self, e):
        """Return a concrete truth value for z3 Bool `e`, forking if needed."""
        if isinstance(e, bool):
            return e
        e = z3.simplify(e)
        if z3.is_true(e):
            return True
        if z3.is_false(e):
            return False
        neg = False
        core = e
        while z3.is_not(core):
            core = core.arg(0)
            neg = not neg
        cid = core.get_id()
        if cid in self.decided:
            self.stats.cache_hits += 1
            return self.decided[cid] != neg
        if len(self.decisions) >= self.max_decisions:
            raise BudgetExceeded("more than %d decisions on one path" % self.max_decisions)
        i = len(self.decisions)
        if i < len(self.prefix):
            val = self.prefix[i]
            self._commit(core, cid, val != neg, e if val else z3.Not(e))
            self.decisions.append(val)
            if i == len(self.prefix) - 1:
                self.model_valid = False
            return val
        # fresh decision
        if FP_SOLVER[0]:
            # bit-precise mode: a feasibility query per fork costs minutes; fork blindly and let the end-of-path
            # satisfiability check (one query) discard infeasible paths
            self.alternatives.append((list(self.decisions) + [False], True))
            self._commit(core, cid, True != neg, e)
            self.decisions.append(True)
            self.model_valid = False
            return True
        mv = self._model_eval(e) if (self.model_valid or self._ensure_model()) else None
        if mv is not None:
            self.stats.model_hits += 1
            other = z3.Not(e) if mv else e
            st, m = solve(self.pc + [other], self.stats, self.timeout_ms, want_model=False)
            if st != "unsat":
                self.alternatives.append((list(self.decisions) + [not mv], st == "unknown"))
            else:
                self.nforced += 1
            val = mv
        else:
            st_t, m_t = solve(self.pc + [e], self.stats, self.timeout_ms)
            st_f, m_f = solve(self.pc + [z3.Not(e)], self.stats, self.timeout_ms)
            if st_t == "unsat" and st_f == "unsat":
                raise PathAbort("both branches unsat")
            if st_t != "unsat":
                val = True
                if st_f != "unsat":
                    self.alternatives.append((list(self.decisions) + [False], st_f == "unknown"))
                if st_t == "sat":
                    self.model, self.model_valid = m_t, True
                else:
                    self.maybe_infeasible = True
            else:
                val = False
                if st_f == "sat":
                    self.model, self.model_valid = m_f, True
                else:
                    self.maybe_infeasible = True
        self._commit(core, cid, val != neg, e if val else z3.Not(e))
        self.decisions.append(val)
        return val

    def _commit(self, core, cid, coreval, constraint):
        self.decided[cid] = coreval
        self.keep.append(core)
        self.pc.append(constraint)

    # -- assumptions -----------------------------------------------------
    def assume(self, e, check=True, contract=None):
        """Add a constraint to the path; kill the path if it becomes infeasible.

        `contract`: name of the stub whose contract this assumption states.  If the assumption cannot be met on a
        feasible path, the stub is cutting real behaviour away (its contract promises something the real callee
        cannot deliver there): recorded as event 'contract_cut:<name>' so that checks can report it."""
        if contract is not None and not FP_SOLVER[0] and not isinstance(e, bool):
            st, _ = solve(self.pc + [e], self.stats, self.timeout_ms)
            if st == "unsat":
                st0, m0 = solve(self.pc, self.stats, self.timeout_ms)
                if st0 == "sat":
                    self.event("contract_cut:" + contract, model={str(d): str(m0[d]) for d in m0.decls()[:24]})
                raise PathAbort("contract assumption of %s cannot be met" % contract)
        if isinstance(e, bool):
            if not e:
                raise PathAbort("assume(False)")
            return
        e = z3.simplify(e)
        if z3.is_true(e):
            return
        if z3.is_false(e):
            raise PathAbort("assume(false)")
        self.pc.append(e)
        stack = [e]
        while stack:
            c = stack.pop()
            if z3.is_and(c):
                stack.extend(c.children())
                continue
            core = c
            neg = False
            while z3.is_not(core):
                core = core.arg(0)
                neg = not neg
            self.decided[core.get_id()] = not neg
            self.keep.append(core)
        if not check or FP_SOLVER[0]:
            self.model_valid = False
            return
        if self.model is not None and self.model_valid:
            if self._model_eval(e) is True:
                return
        self.model_valid = False
        st, m = solve(self.pc, self.stats, self.timeout_ms)
        if st == "unsat":
            raise PathAbort("assumption makes path infeasible")
        if st == "sat":
            self.model, self.model_valid = m, True
        else:
            self.maybe_infeasible = True

    def constrain_aux(self, e):
        """Constraint defining an auxiliary variable (sqrt...): always satisfiable."""
        self.pc.append(e)
        self.model_valid = False

    # -- nondeterministic choice (harness / stubs) --------------------------
    def choose(self, hint="c"):
        """A fresh symbolic Boolean decided immediately (both branches explored)."""
        return self.decide(self.fresh_bool(hint))

    def choose_int(self, lo, hi, hint="k"):
        """Nondeterministic integer in [lo, hi] by a chain of binary choices."""
        for k in range(lo, hi):
            if self.choose("%s=%d" % (hint, k)):
                return k
        return hi

    # -- obligations -----------------------------------------------------
    def check(self, name, violation, info=None, timeout_ms=None):
        """Ask the solver whether `violation` can hold on this path."""
        rec = dict(name=name, status=None, info=info)
        if isinstance(violation, bool):
            if violation:
                # concretely violated on this path: it is a violation iff the path is feasible
                if self.model is not None and self.model_valid:
                    st, m = "sat", self.model
                else:
                    st, m = solve(self.pc, self.stats, timeout_ms or self.timeout_ms)
                    if st == "unsat":
                        raise PathAbort("path condition unsat")
                    if st == "sat":
                        self.model, self.model_valid = m, True
                rec["status"] = st
                if st == "sat":
                    rec["model"] = self.model_values(m)
            else:
                rec["status"] = "unsat"
            self.obligations.append(rec)
            return rec
        v = z3.simplify(violation)
        if z3.is_false(v):
            rec["status"] = "unsat"
            self.obligations.append(rec)
            return rec
        if FP_SOLVER[0]:
            # cheap sound attempts first: term-depth abstraction + cone-of-influence slice of the path condition
            # (dropping constraints and abstracting terms only weakens: unsat carries over to the full query)
            for k in (2, 3):
                try:
                    abs_all = abstract_fp(self.pc + [v], k)
                except Exception:
                    break
                va = abs_all[-1]
                V = _vars_of(va)
                sl = [c for c in abs_all[:-1] if not isinstance(c, bool) and _vars_of(c) <= V]
                st0, _ = solve(sl + [va], self.stats, 8000, want_model=False, _no_abstraction=True)
                if st0 == "unsat":
                    rec["status"] = "unsat"
                    rec["decided_by"] = "abstraction k=%d + slice (%d of %d constraints)" % (k, len(sl), len(self.pc))
                    self.obligations.append(rec)
                    return rec
        st, m = solve(self.pc + [v], self.stats, timeout_ms or self.timeout_ms)
        if st == "unknown" and FP_SOLVER[0]:
            # term-depth abstraction: sub-terms deeper than k become fresh variables; unsat of the abstraction
            # implies unsat of the original (a sat answer of the abstraction decides nothing)
            for k in (1, 2, 3):
                abs_cs = abstract_fp(self.pc + [v], k)
                st2, _ = solve(abs_cs, self.stats, min(timeout_ms or self.timeout_ms or DEFAULT_TIMEOUT_MS, 60000), want_model=False, _no_abstraction=True)
                if st2 == "unsat":
                    st = "unsat"
                    rec["decided_by"] = "term-depth abstraction k=%d" % k
                    break
        rec["status"] = st
        if st == "sat":
            rec["model"] = self.model_values(m)
        self.obligations.append(rec)
        return rec

    def model_values(self, m=None):
        if m is None:
            self._ensure_model()
            m = self.model
        out = {}
        if m is None:
            return out
        for name, v in self.inputs.items():
            val = m.eval(v, model_completion=True)
            if z3.is_fp(val):
                from .scalar_fp import fp_to_float
                try:
                    out[name] = fp_to_float(val).hex()
                except Exception:
                    out[name] = str(val)
                continue
            fr = z3val_to_fraction(val)
            if fr is not None:
                out[name] = "%d/%d" % (fr.numerator, fr.denominator)
            else:
                try:
                    out[name] = repr(z3val_to_float(val))
                except Exception:
                    out[name] = str(val)
        return out

    def eval_float(self, e, m=None):
        """Evaluate a z3 real term under the path model -> float."""
        if m is None:
            self._ensure_model()
            m = self.model
        if m is None:
            return None
        return z3val_to_float(m.eval(e, model_completion=True))

    def known(self, e):
        """Truth value of z3 Bool `e` if it is already decided on this path (syntactically), else None."""
        if isinstance(e, bool):
            return e
        e = z3.simplify(e)
        if z3.is_true(e):
            return True
        if z3.is_false(e):
            return False
        neg = False
        while z3.is_not(e):
            e = e.arg(0)
            neg = not neg
        v = self.decided.get(e.get_id())
        if v is None:
            return None
        return v != neg

    def event(self, kind, **kw):
        self.events.append(dict(kind=kind, **kw))


CTX = Ctx()


def run_path(fn, params, prefix, timeout_ms=None):
    """Run harness function `fn(ctx, params)` under `prefix`.  Returns a picklable dict."""
    CTX.stats = Stats()
    CTX.reset(prefix, timeout_ms)
    t0 = time.time()
    res = dict(prefix=list(prefix), outcome=None, summary=None)
    try:
        summary = fn(CTX, params)
        # every completed path must be feasible: obtain (or confirm) the witness
        CTX._ensure_model()
        res["outcome"] = "done"
        res["summary"] = summary
        res["witness"] = CTX.model_values() if CTX.model_valid else None
    except PathAbort as e:
        res["outcome"] = "infeasible"
        res["summary"] = str(e)
    except Unsupported as e:
        res["outcome"] = "unsupported"
        res["summary"] = str(e)
    except BudgetExceeded as e:
        res["outcome"] = "budget"
        res["summary"] = str(e)
    res["decisions"] = len(CTX.decisions)
    res["forced"] = CTX.nforced
    res["alternatives"] = CTX.alternatives
    res["obligations"] = CTX.obligations
    res["events"] = CTX.events
    res["maybe_infeasible"] = CTX.maybe_infeasible
    res["stats"] = CTX.stats.as_dict()
    res["_stats_obj"] = None
    res["wall"] = time.time() - t0
    res["npc"] = len(CTX.pc)
    res["n_eq"] = sum(1 for c in CTX.pc if z3.is_eq(c))
    return res
