"""Per-property check runner: explorations -> replay -> known findings -> evidence -> exit code."""
from __future__ import annotations

import json
import os
import subprocess
import sys
import time

VERIF = os.path.dirname(os.path.dirname(os.path.abspath(__file__)))
REALPY = os.environ.get("SYMX_REAL_PYTHON", "/venv/bin/python")
REALRUN = os.path.join(VERIF, "replay", "realrun.py")


def realrun(cases, timeout=600):
    """Run concrete cases on the real package; returns list of results."""
    if not cases:
        return []
    env = dict(os.environ)
    env["SYMX_REPO"] = os.environ.get("SYMX_REPO", "/repo")
    env["LBFGSB_VERIF"] = "1"
    p = subprocess.run([REALPY, REALRUN], input=json.dumps(cases), capture_output=True, text=True, timeout=timeout, env=env)
    if p.returncode != 0:
        raise RuntimeError("realrun failed: " + p.stderr[-2000:])
    return json.loads(p.stdout)


def load_known():
    path = os.path.join(VERIF, "known_findings.json")
    if not os.path.exists(path):
        return []
    with open(path) as f:
        return json.load(f).get("findings", [])


class Check:
    def __init__(self, pid, tier=None, seed=None, technique=""):
        self.pid = pid
        self.tier = tier or os.environ.get("VERIF_TIER", "quick")
        self.seed = int(seed if seed is not None else os.environ.get("VERIF_SEED", "0") or 0)
        self.t0 = time.time()
        self.explorations = []
        self.functions = []
        self.bounds = {}
        self.outside = []
        self.stubs = []
        self.assumptions = []
        self.samples = []
        self.validated = 0
        self.validation_skipped = 0
        self.validation_mismatch = []
        self.confirmed = []          # dict(signature, what, replay_path)
        self.unconfirmed = []        # candidates that did not reproduce
        self.harness_errors = []
        self.undecided = 0
        self.notes = []
        self.technique = technique
        self.extra = {}

    # ------------------------------------------------------------------
    def add(self, ex):
        self.explorations.append(ex)
        for p in ex.problems:
            self.harness_errors.append("%s %s: %s" % (ex.target, p["outcome"], p["summary"]))
            if p.get("trace"):
                sys.stderr.write(p["trace"] + "\n")
        if not ex.exhausted:
            self.harness_errors.append("%s %s: path/time budget exhausted before the work list was empty" % (ex.target, json.dumps(ex.params)))
        self.undecided += len(ex.unknown_obligations)
        for kind, cnt in (ex.events or {}).items():
            if kind.startswith("contract_cut:"):
                # a stub's contract assumption was unsatisfiable on a feasible path: the stub silently removes real
                # behaviour (the first approx_derivative stub did that on degenerate sides).  Never tolerated.
                self.harness_errors.append("%s %s: stub contract '%s' cannot be met on %d feasible path prefixes (the stub cuts real behaviour)" % (
                    ex.target, json.dumps(ex.params), kind.split(":", 1)[1], cnt))
        if ex.paths == 0:
            self.harness_errors.append("%s %s: no feasible path (vacuous harness)" % (ex.target, json.dumps(ex.params)))
        return ex

    def sample(self, obj):
        if len(self.samples) < 12:
            self.samples.append(obj)

    # ------------------------------------------------------------------
    def validate(self, ex, case_fn, agree_fn, k=None, only_strict=True):
        """Translator validation: replay path witnesses on the real function."""
        ws = [w for w in ex.witnesses if w.get("witness")]
        if only_strict:
            strict = [w for w in ws if w.get("n_eq", 0) == 0]
            self.validation_skipped += len(ws) - len(strict)
            ws = strict
        if k is not None and len(ws) > k:
            step = len(ws) / float(k)
            ws = [ws[int(i * step)] for i in range(k)]
        cases = []
        keep = []
        for w in ws:
            c = case_fn(ex.params, w["witness"])
            if c is None:
                self.validation_skipped += 1
                continue
            cases.append(c)
            keep.append(w)
        res = realrun(cases)
        for w, c, r in zip(keep, cases, res):
            ok = agree_fn(w["summary"], r)
            if ok is None:
                self.validation_skipped += 1
            elif ok:
                self.validated += 1
            else:
                self.validation_mismatch.append(dict(case=c, real=r, symbolic=w["summary"]))
        return res

    # ------------------------------------------------------------------
    def violation(self, signature, what, payload):
        """A replay-confirmed violation."""
        for c in self.confirmed:
            if c["signature"] == signature:
                c["count"] = c.get("count", 1) + 1
                return
        known = load_known()
        for k in known:
            if k.get("property") == self.pid and k.get("status", "open") == "open" and k.get("signature") == signature:
                self.confirmed.append(dict(signature=signature, what=what, known=True))
                return
        rdir = os.environ.get("SYMX_REPLAY_DIR", os.path.join(VERIF, "replays"))
        os.makedirs(rdir, exist_ok=True)
        n = len([c for c in self.confirmed if not c.get("known")])
        path = os.path.join(rdir, "%s-%d.json" % (self.pid, n))
        with open(path, "w") as f:
            json.dump(dict(property=self.pid, signature=signature, what=what, payload=payload,
                           rerun="cd %s && ./check --replay %s" % (VERIF, path)), f, indent=1)
        self.confirmed.append(dict(signature=signature, what=what, known=False, replay=path))

    def unconfirm(self, what):
        self.unconfirmed.append(what)

    # ------------------------------------------------------------------
    def finish(self):
        wall = time.time() - self.t0
        states = sum(e.paths for e in self.explorations)
        transitions = sum(e.decisions for e in self.explorations)
        q = dict(sat=0, unsat=0, unknown=0)
        for e in self.explorations:
            for k in q:
                q[k] += e.queries[k]
        obligations = sum(e.obligations for e in self.explorations)
        discharged = sum(e.discharged for e in self.explorations)
        new = [c for c in self.confirmed if not c.get("known")]
        known = [c for c in self.confirmed if c.get("known")]
        if self.validation_mismatch:
            self.harness_errors.append("%d witness replays disagree with the real implementation (first: %s)" % (
                len(self.validation_mismatch), json.dumps(self.validation_mismatch[0])[:600]))
        if self.unconfirmed and not new:
            self.harness_errors.append("%d solver counterexamples did not reproduce on the real package (first: %s)" % (
                len(self.unconfirmed), json.dumps(self.unconfirmed[0])[:600]))
        too_many_undecided = self.undecided > max(2, obligations // 50)
        if too_many_undecided:
            self.harness_errors.append("%d of %d obligations undecided (solver unknown/timeout)" % (self.undecided, obligations))
        cov = dict(
            states=max(states, 0), transitions=max(transitions, 0),
            traces_validated_against_impl=self.validated,
            samples=self.samples or [dict(note="no sample recorded")],
            obligations=obligations, discharged=discharged, undecided=self.undecided,
            queries=q,
            solver_time_s=round(sum(e.solver_time for e in self.explorations), 2),
            slowest_query_s=round(max([e.slowest for e in self.explorations] or [0]), 2),
            functions_encoded=self.functions, bounds=self.bounds, outside_bounds=self.outside, stubs=self.stubs,
            explorations=[e.as_dict() for e in self.explorations],
            witnesses_skipped_in_validation=self.validation_skipped,
            known_findings_matched=[k["signature"] for k in known],
            violations_confirmed=[dict(signature=c["signature"], what=c["what"], replay=c.get("replay")) for c in new],
            counterexamples_not_reproduced=len(self.unconfirmed),
            harness_errors=self.harness_errors, notes=self.notes, technique=self.technique,
            exhaustive=False,
        )
        cov.update(self.extra)
        ev = dict(property_id=self.pid, tier=self.tier if self.tier in ("quick", "thorough") else "quick",
                  seed=self.seed, level="model_checking", coverage=cov, assumptions=self.assumptions,
                  wall_s=round(wall, 2), violations=len(new))
        edir = os.environ.get("SYMX_EVIDENCE_DIR", os.path.join(VERIF, "evidence"))
        os.makedirs(edir, exist_ok=True)
        with open(os.path.join(edir, self.pid + ".json"), "w") as f:
            json.dump(ev, f, indent=1, default=str)
        for k in known:
            print("KNOWN-FINDING: property=%s %s" % (self.pid, k["what"]))
        for c in new:
            print("VIOLATION property=%s replay=%s" % (self.pid, c["replay"]))
            print("  " + c["what"])
        print("%s %s: %d paths, %d decisions, %d/%d obligations discharged (%d undecided), queries %s, "
              "%d witnesses validated on the real code, %.1fs" % (
                  self.pid, self.tier, states, transitions, discharged, obligations, self.undecided, q, self.validated, wall))
        if new:
            return 1
        if self.harness_errors:
            for h in self.harness_errors:
                print("HARNESS-ERROR property=%s %s" % (self.pid, h))
            return 2
        return 0
