"""C09 check: subspace minimisation = box-truncated Newton point of the model."""
from __future__ import annotations

from symx import driver
from symx.report import Check, realrun
from harness import c09 as H, common

TOL = 1e-7


def _far(a, b):
    return isinstance(a, str) or isinstance(b, str) or abs(a - b) > TOL * (1 + abs(b))


def agree(summary, real):
    if "error" in real:
        return False
    out = summary.get("out") if isinstance(summary, dict) else None
    if out is None:
        return None
    return not any(_far(a, b) for a, b in zip(out, real["xbar"]))


def confirm(chk, ex):
    by = {}
    for c in ex.candidates:
        by.setdefault(c["name"], []).append(c)
    for name, cands in by.items():
        cands = cands[:6]
        cases = [H.real_case(ex.params, c["model"]) for c in cands]
        res = realrun(cases)
        hit = False
        for c, case, r in zip(cands, cases, res):
            bad = None
            if "error" in r:
                bad = "raises " + r["error"]
            elif name == "xbar_equals_truncated_newton_point":
                if any(_far(a, b) for a, b in zip(r["xbar"], r["ref"])):
                    bad = "xbar=%s but the box-truncated Newton point from x_cp=%s is %s" % (r["xbar"], r["x_cp"], r["ref"])
            elif name == "active_variables_kept":
                act = [i for i in range(case["n"]) if i not in r["free"]]
                if any(r["xbar"][i] != r["x_cp"][i] for i in act):
                    bad = "xbar=%s moved a variable that is on a bound at x_cp=%s" % (r["xbar"], r["x_cp"])
            elif name == "xbar_in_box":
                if not r["in_box"]:
                    bad = "xbar=%s outside the box" % (r["xbar"],)
            elif name == "model_not_increased":
                if r["q_xbar"] > r["q_xcp"] + 1e-9 * (1 + abs(r["q_xcp"])):
                    bad = "model value %g at xbar > %g at x_cp" % (r["q_xbar"], r["q_xcp"])
            elif name == "descent_direction":
                if not (r["gd"] < 0):
                    bad = "g.(xbar-x) = %g is not negative" % r["gd"]
            if bad:
                hit = True
                what = "subspace_minimization[%s](n=%d, m=%d, x=%s, g=%s, l=%s, u=%s%s): %s" % (
                    case["mode"], case["n"], len(case["S"]), case["x"], case["g"], case["l"], case["u"],
                    ", xc=%s" % case["xc"] if "xc" in case else "", bad)
                chk.violation("C09:%s" % name, what, dict(case=case, real=r))
                break
        if not hit:
            chk.unconfirm(dict(obligation=name, params=ex.params, model=cands[0]["model"], real=res[0] if res else None))


QUICK_PIPE_M1 = [("ff", "ff"), ("ff", "if"), ("fi", "ff"), ("if", "fi"), ("ff", "ii"), ("ii", "ii")]


def main(tier, seed):
    chk = Check("C09", tier, seed, technique="dynamic symbolic execution of the real get_cauchy_point -> get_freev -> subspace_minimization over z3 reals (QF_NRA, rational-function normal forms), oracle = truncated Newton point with dense B")
    T = "harness.c09:path"
    jobs = []
    pats2 = common.bound_patterns(2)
    for pat in pats2:
        jobs.append((T, dict(n=2, m=0, mode="pipeline", pattern=pat)))
        jobs.append((T, dict(n=2, m=0, mode="direct", pattern=pat)))
        jobs.append((T, dict(n=2, m=1, mode="direct", pattern=pat, which=0)))
    if tier == "quick":
        for pat in QUICK_PIPE_M1:
            jobs.append((T, dict(n=2, m=1, mode="pipeline", pattern=pat, which=0)))
        # two pairs in memory (the off-diagonal blocks of K and the strictly lower part L only exist then)
        for pat in (("ff", "ff"), ("ff", "fi")):
            jobs.append((T, dict(n=2, m=2, mode="direct", pattern=pat, which=1, seed=seed)))
        chk.bounds = dict(n=2, m=[0, 1, 2], modes="pipeline (real Cauchy point first) and direct (arbitrary feasible x_cp)",
                          bound_patterns="all 16 (m=0 and m=1 direct); 6 for the m=1 pipeline; 2 for m=2 direct", memory_instances=1)
        tl, vk = 1200, 8
    else:
        for pat in pats2:
            jobs.append((T, dict(n=2, m=1, mode="pipeline", pattern=pat, which=0)))
            jobs.append((T, dict(n=2, m=1, mode="direct", pattern=pat, which=1, seed=seed)))
            jobs.append((T, dict(n=2, m=2, mode="direct", pattern=pat, which=1, seed=seed)))
        for pat in [("ff", "ff"), ("ff", "fi"), ("if", "ii")]:
            jobs.append((T, dict(n=2, m=1, mode="pipeline", pattern=pat, which=2, seed=seed)))
            jobs.append((T, dict(n=2, m=2, mode="pipeline", pattern=pat, which=1, seed=seed)))
        for pat in common.bound_patterns(3):
            jobs.append((T, dict(n=3, m=0, mode="direct", pattern=pat)))
        for pat in [("ff", "ff", "ff"), ("ff", "if", "fi"), ("ii", "ff", "fi"), ("ii", "ii", "ii")]:
            jobs.append((T, dict(n=3, m=0, mode="pipeline", pattern=pat)))
            jobs.append((T, dict(n=3, m=1, mode="direct", pattern=pat, which=1, seed=seed)))
        chk.bounds = dict(n=[2, 3], m=[0, 1, 2], detail="n=2: all patterns for m<=1 (2 instances) and m=2 direct; n=3: m=0 direct all 64 patterns, pipeline/m=1 on 4 patterns")
        tl, vk = 7200, 25
    exs = driver.explore_many(jobs, time_limit=tl, timeout_ms=30000 if tier == "quick" else 90000)
    W = common.world()
    for ex in exs:
        chk.add(ex)
        if ex.candidates:
            confirm(chk, ex)
        chk.validate(ex, H.real_case, agree, k=vk)
    ex0 = exs[0]
    if ex0.witnesses:
        chk.sample(dict(params=ex0.params, path_prefix=ex0.witnesses[0]["prefix"], witness=ex0.witnesses[0]["witness"]))
    chk.sample(dict(obligations=["xbar_equals_truncated_newton_point", "active_variables_kept", "xbar_in_box", "model_not_increased", "descent_direction (pipeline)"],
                    form="path condition /\\ negated obligation must be unsat on every path"))
    chk.functions = W.functions_encoded(H.FUNCS)
    chk.outside = ["n >= 4", "symbolic memory contents (pairs are concrete rational instances)", "float64 rounding (mode R)",
                   "|g_i| outside {0} u [2^-10, 2^10], |x|,|l|,|u| > 2^10"]
    chk.assumptions = ["l <= x <= u; pipeline: projected gradient non-zero; direct: l <= x_cp <= u arbitrary",
                       "B positive definite (pairs y = A s, A SPD); c = W'(x_cp - x) in direct mode",
                       "shim numpy/scipy (Cholesky, triangular solves, Gaussian elimination written over exact terms) validated per run by witness replay"]
    return chk.finish()
