"""C06 check: restarting from a returned result continues the run as if it had not stopped."""
from __future__ import annotations

from symx import driver
from symx.report import Check
from . import rel_common

T = "harness.orch_rel:c06"


def case_of(params, model):
    c = {k: params[k] for k in ("K", "k", "k2", "maxcor", "maxcor_restart") if k in params}
    c.setdefault("maxcor", params.get("maxcor", 2))
    if params.get("ls_mode") == "lean":
        c["ls_failures"] = 1
    return c


def main(tier, seed):
    chk = Check("C06", tier, seed, technique="relational DSE: uninterrupted / stopped / restarted runs of the real main.py in one path context with functional kernel stubs; equality of terms decided by z3; scenario replay on the real API")
    jobs = [(T, dict(K=2, k=1, ls_mode="lean")), (T, dict(K=3, k=2, ls_mode="unit")), (T, dict(K=3, k=1, ls_mode="unit", maxcor=1)),
            (T, dict(K=3, k=2, ls_mode="unit", maxcor=2, maxcor_restart=1)), (T, dict(K=3, k=2, ls_mode="unit", maxcor=3))]
    if tier != "quick":
        jobs += [(T, dict(K=3, k=1, k2=2, ls_mode="unit")), (T, dict(K=3, k=2, ls_mode="lean")), (T, dict(K=4, k=2, ls_mode="unit", maxcor=3)),
                 (T, dict(K=4, k=3, ls_mode="unit", maxcor=3, maxcor_restart=1)),
                 # line search fails, succeeds, fails again (needs four iterations): the second failure must be handled
                 # the same way in the uninterrupted and in the restarted run
                 (T, dict(K=4, k=3, ls_mode="lean", maxcor=1))]
        # (a K=4 chain k=1 -> k2=3 exhausts 60000 paths without finishing: outside the bound, chains are decided for K=3)
    exs = driver.explore_many(jobs, time_limit=1500 if tier == "quick" else 10000, timeout_ms=30000, max_paths=60000)
    for ex in exs:
        chk.add(ex)
        if ex.candidates:
            rel_common.confirm(chk, ex, "scenario_restart", case_of)
    rel_common.finish_common(chk, exs, "scenario_restart", case_of, tier)
    chk.bounds = dict(K="2..3 (thorough 4)", split="every k used: 1..K-1", maxcor="1..3, kept or reduced at restart", chains="thorough: k=1 -> k2=2 -> K=3", n="1")
    chk.notes.append("When the update at the split point was skipped by the curvature test, result.x is not the newest retained point and the checkpoint format cannot say so; pairs formed later may then differ. The property (pairs carried over, next iterate) is unaffected; full-K equality is asserted only when the update at the split was stored.")
    chk.outside.append("n >= 2 in the relational runs (the curvature products s.y of two symbolic vectors leave nlsat undecided at 30 s; the orchestration code is dimension-agnostic array code)")
    chk.sample(dict(runs=["U: maxiter=K", "A: maxiter=k", "B0: restart from A, maxiter=k", "B1/U1: maxiter=k+1", "B: restart from A, maxiter=K"],
                    obligations=["C06.noop_restart_keeps_pairs", "C06.next_iterate_state_equal", "C06.next_iterate_equals_uninterrupted", "C06.restarted_equals_uninterrupted", "C06.reduced_memory_keeps_most_recent_pairs", "C06.chain_of_restarts_equals_uninterrupted"]))
    return chk.finish()
