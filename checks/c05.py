"""C05 check (single-run orchestration harness, obligation group C05)."""
from . import orch_common


def main(tier, seed):
    extra = []
    for m in ("2-point", "none") + (("3-point", "cs") if tier != "quick" else ()):
        extra.append(dict(maxiter=1, maxfun=6, maxls=2, ftol="sym", ls_mode="contract", ls_tmax=2, jac_mode=m, callback_kind="choose", groups=["C05"]))
    extra.append(dict(maxiter=1, maxfun=4, maxls=2, ftol="sym", ls_mode="contract", ls_tmax=2, scaler=1, callback_kind="choose", groups=["C05"]))
    extra.append(dict(maxiter=2, maxfun=5, maxls=1, ftol="sym", ls_mode="lean", scaler=1, checkpoint=1, ck_nit=1, ck_nfev=2, ck_pairs=1, groups=["C05"]))
    # restart of a finite-difference run: the checkpoint's counters differ (nfev counts the stencil points too)
    extra.append(dict(maxiter=2, maxfun=12, maxls=1, ftol="sym", ls_mode="lean", jac_mode="2-point", checkpoint=1, ck_nit=1, ck_nfev=5, ck_njev=2, ck_pairs=1, groups=["C05"]))
    extra.append(dict(maxiter=2, maxfun=8, maxls=1, ftol="sym", ls_mode="lean", checkpoint=1, ck_nit=1, ck_nfev=5, ck_njev=3, ck_pairs=1, groups=["C05"]))
    # user callables that scribble over the array they receive (they are documented to get a copy)
    extra.append(dict(maxiter=1, maxfun=4, maxls=2, ftol="sym", ls_mode="contract", ls_tmax=2, mutate_args=1, callback_kind="choose", groups=["C05"]))
    extra.append(dict(maxiter=1, maxfun=6, maxls=1, ftol="sym", ls_mode="lean", jac_mode="2-point", mutate_args=1, groups=["C05"]))
    chk = orch_common.run("C05", tier, seed, extra_jobs=extra, technique="DSE of the real main.py/scalar_function.py/bfgsmats.py with contract stubs for the kernels and uninterpreted user callables; z3 per path; scenario replay on the real API")
    chk.sample(dict(config=dict(maxiter="0..1", maxfun="1..3", maxls="1..2", ftol="symbolic >= 0", gtol="symbolic >= 0", ftarget="none|float|callable", callback="returns a symbolic Boolean"),
                    obligations="C05.* (see harness/orch_single.py)"))
    return chk.finish()
