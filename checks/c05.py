"""C05 check (single-run orchestration harness, obligation group C05)."""
from . import orch_common


def main(tier, seed):
    chk = orch_common.run("C05", tier, seed, technique="DSE of the real main.py/scalar_function.py/bfgsmats.py with contract stubs for the kernels and uninterpreted user callables; z3 per path; scenario replay on the real API")
    chk.sample(dict(config=dict(maxiter="0..1", maxfun="1..3", maxls="1..2", ftol="symbolic >= 0", gtol="symbolic >= 0", ftarget="none|float|callable", callback="returns a symbolic Boolean"),
                    obligations="C05.* (see harness/orch_single.py)"))
    return chk.finish()
