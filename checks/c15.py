"""C15 check: the function wrapper never serves a stale value and counts every evaluation once."""
from __future__ import annotations

from symx import driver
from symx.report import Check, realrun
from harness import c15 as H, common

T = "harness.c15:path"
MODES = ["callable", "2-point", "3-point", "cs", "none"]


def confirm(chk, ex, prefix):
    by = {}
    for c in ex.candidates:
        by.setdefault(c["name"], []).append(c)
    for name, cands in by.items():
        hit = False
        for cand in cands[:4]:
            cases = H.real_cases(ex.params, cand)
            for case, r in zip(cases, realrun(cases)):
                if "error" in r:
                    if name.endswith("no_exception"):
                        hit = True
                        chk.violation("%s:no_exception" % prefix, "ScalarFunction history %s raises %s" % (case["ops"], r["error"]), dict(case=case, real=r))
                        break
                    continue
                v = r.get("violated") or {}
                if name in v:
                    hit = True
                    chk.violation(name.replace(".", ":"), "ScalarFunction(jac=%s), history %s: %s" % (case["jac"], [o["op"] + ("*" if o.get("reuse") else "") for o in case["ops"]], v[name]), dict(case=case, real=r))
                    break
            if hit:
                break
        if not hit:
            chk.unconfirm(dict(obligation=name, params=ex.params, model=cands[0]["model"], info=cands[0].get("info")))


def run(pid, tier, seed, technique):
    chk = Check(pid, tier, seed, technique=technique)
    jobs = []
    if pid == "C15":
        jobs.append((T, dict(L=4, jac="callable")))
        for m in MODES[1:]:
            jobs.append((T, dict(L=3, jac=m)))
        jobs.append((T, dict(L=2, jac="callable", n=2)))
        if tier != "quick":
            jobs.append((T, dict(L=5, jac="callable")))
            jobs.append((T, dict(L=4, jac="2-point")))
            jobs.append((T, dict(L=4, jac="none")))
            jobs.append((T, dict(L=3, jac="callable", n=2)))
    else:
        for m in MODES[1:]:
            jobs.append((T, dict(L=2, jac=m)))
            jobs.append((T, dict(L=1, jac=m, rel="none")))
        if tier != "quick":
            for m in MODES[1:]:
                jobs.append((T, dict(L=3, jac=m, n=2)))
    exs = driver.explore_many(jobs, time_limit=1200 if tier == "quick" else 7200, timeout_ms=20000, max_paths=400000)
    for ex in exs:
        chk.add(ex)
        mine = [c for c in ex.candidates if c["name"].startswith(pid) or c["name"].endswith("no_exception")]
        if mine:
            ex.candidates = mine
            confirm(chk, ex, pid)
        else:
            ex.candidates = []
    # translator validation: a fixed set of histories replayed on the real wrapper must audit clean
    hist = [[dict(op="fun", point=[0.5]), dict(op="grad", reuse=True, point=[0.5]), dict(op="mutate", value=[2.0]), dict(op="fun_and_grad", reuse=True, point=[2.0]),
             dict(op="rescale", value=3.0), dict(op="fun", point=[0.5])],
            [dict(op="grad", point=[0.25]), dict(op="fun", point=[0.25]), dict(op="fun", point=[0.75]), dict(op="fun_and_grad", point=[0.25])]]
    cases = [dict(kind="sf_history", n=1, jac=m, x0=[0.25], eps=1e-8, rel_step=None, ops=h) for m in MODES for h in hist]
    for case, r in zip(cases, realrun(cases)):
        if "error" in r or r.get("violated"):
            chk.validation_mismatch.append(dict(case=case, real=r))
        else:
            chk.validated += 1
    W = common.world("c15")
    chk.functions = W.functions_encoded(H.FUNCS)
    chk.stubs = ["approx_derivative (SciPy): evaluates the wrapped objective at n (2n for 3-point) stencil points x0 + h e_i, h != 0, returns an uninterpreted finite-difference gradient of x0; records its keyword arguments"]
    chk.assumptions = ["user objective/gradient are uninterpreted functions (Ackermann-consistent)", "scaling factor in [1e-3, 1e3]",
                       "'not re-evaluated at the point it was last evaluated at' is read over evaluations at requested points (stencil evaluations of the differencing routine are not requests)"]
    chk.outside = ["histories longer than the bound", "float64 rounding"]
    return chk


def main(tier, seed):
    chk = run("C15", tier, seed, "DSE of the real ScalarFunction/prepare_scalar_function over all histories of <= L operations from {fun, grad, fun_and_grad, mutate-last-array, rescale} with symbolic points (aliasing decided by z3), uninterpreted user functions")
    chk.bounds = dict(L="4 (callable), 3 (finite-difference modes); thorough 5/4", n="1 (and 2 for L=2)", gradient_modes=MODES)
    chk.sample(dict(history=["fun(p0)", "grad(same array)", "caller mutates the array", "fun_and_grad(same array)", "scaling_factor := s", "fun(p5)"],
                    obligations=["C15.value_is_fresh", "C15.gradient_is_fresh", "C15.nfev_counts_objective_calls", "C15.ngev_counts_gradient_computations", "C15.no_reevaluation_at_the_cached_point"]))
    return chk.finish()
