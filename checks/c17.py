"""C17 check: a gradient scaler is equivalent to minimising the explicitly scaled objective."""
from __future__ import annotations

from symx import driver
from symx.report import Check, realrun
from harness import common
from . import rel_common

T = "harness.orch_rel:c17"


def case_of(params, model):
    c = dict(K=max(params.get("K", 3), 3), maxcor=params.get("maxcor", 2))
    if params.get("jac"):
        c["jac"] = params["jac"]
    if model and "scale" in model:
        c["scale"] = common.fr_to_float(model["scale"])
    return c


def main(tier, seed):
    chk = Check("C17", tier, seed, technique="relational DSE: run with a scaler oracle returning symbolic s in [1e-3,1e3] vs run on s*f, s*grad f without scaler, real main.py/ScalarFunction with functional stubs; z3 decides equality of terms; plus the packaged unit scaler executed symbolically")
    jobs = [(T, dict(K=2, ls_mode="unit", ftarget=1, ftol="sym")), (T, dict(K=2, ls_mode="lean")), (T, dict(K=3, ls_mode="unit", maxcor=2))]
    jobs += [(T, dict(K=2, ls_mode="unit", jac="2-point")), (T, dict(K=1, ls_mode="unit", jac="none", ftarget=1))]
    jobs.append((T, dict(K=2, ls_mode="unit", ftarget=1, ftol="sym", update_identity=1)))
    jobs.append(("harness.orch_rel:unit_scaler", dict(n=2)))
    if tier != "quick":
        jobs += [(T, dict(K=2, ls_mode="unit", jac="3-point")), (T, dict(K=2, ls_mode="unit", jac="cs")), (T, dict(K=3, ls_mode="unit", ftarget=1, ftol="sym", maxcor=1)), (T, dict(K=3, ls_mode="lean")), ("harness.orch_rel:unit_scaler", dict(n=3))]
    exs = driver.explore_many(jobs, time_limit=1500 if tier == "quick" else 7200, timeout_ms=30000, max_paths=60000)
    for ex in exs:
        chk.add(ex)
        if ex.candidates:
            if "unit_scaler" in ex.target:
                confirm_unit(chk, ex)
            else:
                rel_common.confirm(chk, ex, "scenario_scaler", lambda p, m, _ex=ex: case_of(p, _ex.candidates[0]["model"]))
    rel_common.finish_common(chk, [e for e in exs if "unit_scaler" not in e.target], "scenario_scaler", case_of, tier)
    chk.bounds = dict(K="2..3", s="symbolic in [1e-3, 1e3]", ftarget="symbolic (tested on the unscaled value)", n=1, unit_scaler="n<=2 (thorough 3), all real x, g, finite box")
    chk.notes.append("A run whose target is already met at x0 returns before any gradient (hence before the scaler) is computed; that corner is excluded (no gradient computed), as in C05.")
    chk.sample(dict(runs=["S: objective f, scaler -> s", "E: objective s*f, gradient s*grad f, ftarget s*t"],
                    obligations=["C17.same_result_as_scaled_objective", "C17.same_evaluation_points", "C17.same_callback_states",
                                 "C17.scaler_called_once_with_start_point_and_unscaled_gradient", "C17.target_tested_on_unscaled_value", "C17.unit_scaler_is_inverse_projected_gradient_norm"]))
    return chk.finish()


def confirm_unit(chk, ex):
    import numpy as np
    for c in ex.candidates[:3]:
        m = c["model"]
        n = ex.params["n"]
        f = common.fr_to_float
        case = dict(kind="unit_scaler", x=[f(m.get("x%d" % i, "0")) for i in range(n)], g=[f(m.get("g%d" % i, "0")) for i in range(n)],
                    l=[f(m.get("l%d" % i, "0")) for i in range(n)], u=[f(m.get("u%d" % i, "0")) for i in range(n)])
        r = realrun([case])[0]
        if "error" in r or abs(r["value"] - r["ref"]) > 1e-9 * (1 + abs(r["ref"])):
            chk.violation("C17:unit_scaler", "get_gradient_projection_unit_scaling(%s) = %r, 1/max|x - clip(x-g)| = %r" % (case, r.get("value"), r.get("ref")), dict(case=case, real=r))
            return
    chk.unconfirm(dict(obligation="unit_scaler", model=ex.candidates[0]["model"]))
