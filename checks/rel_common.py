"""Shared driver for the relational orchestration properties (C06, C07, ...)."""
from __future__ import annotations

from symx import driver
from symx.report import Check, realrun
from harness import common, orch, orch_single


def confirm(chk, ex, kind, case_of):
    by = {}
    for c in ex.candidates:
        by.setdefault(c["name"], []).append(c)
    cases = [case_of(ex.params, None)]
    res = realrun([dict(c, kind=kind) for c in cases])
    for name, cands in by.items():
        hit = False
        for case, r in zip(cases, res):
            if "error" in r:
                continue
            for run in r["runs"]:
                v = run.get("violated") or {}
                if name in v or (name == "no_exception" and "no_exception" in v):
                    hit = True
                    chk.violation(name.replace(".", ":"), "minimize_lbfgsb on %s, scenario %s: %s" % (run["problem"], {k: w for k, w in case.items() if k != "kind"}, v.get(name) or v.get("no_exception")),
                                  dict(case=dict(case, kind=kind), real=run))
                    break
            if hit:
                break
        if not hit:
            # the same scenario may surface on the real kernels through a sibling obligation of the same property
            pref = name.split(".")[0] + "."
            for case, r in zip(cases, res):
                if "error" in r or hit:
                    continue
                for run in r["runs"]:
                    sib = [k for k in (run.get("violated") or {}) if k.startswith(pref)]
                    if sib:
                        hit = True
                        chk.violation(sib[0].replace(".", ":"), "minimize_lbfgsb on %s, scenario %s: %s (solver obligation: %s)" % (
                            run["problem"], {k: w for k, w in case.items() if k != "kind"}, run["violated"][sib[0]], name), dict(case=dict(case, kind=kind), real=run))
                        break
        if not hit:
            chk.unconfirm(dict(obligation=name, params=ex.params, model=cands[0]["model"], info=cands[0].get("info")))
    return res


def finish_common(chk, exs, kind, case_of, tier):
    W = common.world("orch")
    orch.install(W)
    # translator validation: the scenarios of the explorations without candidates are replayed on the real API
    clean = [ex for ex in exs if not ex.candidates]
    cases = [dict(case_of(ex.params, None), kind=kind) for ex in clean]
    for ex, r in zip(clean, realrun(cases)):
        if "error" in r:
            chk.validation_mismatch.append(dict(params=ex.params, real=r))
            continue
        for rr in r["runs"]:
            if rr.get("violated"):
                chk.validation_mismatch.append(dict(params=ex.params, real=rr, note="symbolic exploration found no violation but the real audit does"))
            elif "violated" in rr:
                chk.validated += 1
    chk.functions = W.functions_encoded(orch_single.FUNCS)
    chk.stubs = ["direction (get_cauchy_point+get_freev+subspace_minimization): fresh xbar in the box with grad.(xbar-x) < 0, FUNCTIONAL in (x, grad, S, Y) (Ackermann) [C08/C09]",
                 "line_search, lean: one trial x + a d with a = A(x, f, grad, d, above_iter == 0) in (0,1] functional (or a = 1 in 'unit' mode), accepted iff f decreases [C11]; trial points are new points (no memo hit by coincidence)",
                 "form_invMfactors: opaque token", "objective/gradient: uninterpreted functions shared by all runs of a path"]
    chk.assumptions = ["objective values finite", "n = 1 unless stated", "runs stopped by gtol/maxiter/abnormal line search only (ftol = 0, no target)"]
    chk.outside = ["more iterations than the bound", "float64 rounding ('up to rounding' is exact equality of terms here)", "several trials per line search in the relational runs"]
