"""C03 check (single-run orchestration harness, obligation group C03)."""
from . import orch_common


def main(tier, seed):
    extra = []
    for maxfun in (2, 3, 4):
        for maxls in (1, 2):
            extra.append(dict(maxiter=1, maxfun=maxfun, maxls=maxls, ftol="sym", callback_kind="false", ls_mode="real", groups=["C03"]))
    if tier != "quick":
        extra.append(dict(maxiter=1, maxfun=5, maxls=3, ftol="sym", callback_kind="false", ls_mode="real", groups=["C03"]))
        extra.append(dict(maxiter=2, maxfun=4, maxls=1, ftol="sym", callback_kind="false", ls_mode="real", groups=["C03"]))
    chk = orch_common.run("C03", tier, seed, extra_jobs=extra, technique="DSE of the real main.py/scalar_function.py/bfgsmats.py with contract stubs for the kernels and uninterpreted user callables; z3 per path; scenario replay on the real API")
    chk.sample(dict(config=dict(maxiter="0..1", maxfun="1..3", maxls="1..2", ftol="symbolic >= 0", gtol="symbolic >= 0", ftarget="none|float|callable", callback="returns a symbolic Boolean"),
                    obligations="C03.* (see harness/orch_single.py)"))
    chk.stubs.append("extra jobs: the REAL line_search (SciPy DCSRCH tail cut as in C11) inside the run, K=1")
    return chk.finish()
