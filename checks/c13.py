"""C13 check: redefining the objective on the fly acts as a restart on the new objective."""
from __future__ import annotations

from symx import driver
from symx.report import Check
from . import rel_common


def case_of(params, model):
    c = dict(K=max(params.get("K", 3), 3), at=params.get("at", 2), maxcor=params.get("maxcor", 2))
    if params.get("inplace"):
        c["inplace"] = 1
    if params.get("eps_SY") is not None:
        from fractions import Fraction
        c["eps_SY"] = float(Fraction(params["eps_SY"]))
    return c


def main(tier, seed):
    chk = Check("C13", tier, seed, technique="relational DSE of the real main.py/make_X_and_G_respect_strong_wolfe/update_lbfgs_matrices with an update-function oracle (identity; switch to a second uninterpreted objective with rewritten gradients); z3 decides equality of terms / existence of a provenance chain; scenario replay on the real API")
    I, R = "harness.orch_rel:c13_identity", "harness.orch_rel:c13_rewrite"
    jobs = [(I, dict(K=2, ls_mode="unit", ftol="sym", ftarget=1)), (I, dict(K=2, ls_mode="lean", ftol="sym")),
            (R, dict(K=2, ls_mode="unit", at=1)), (R, dict(K=3, ls_mode="unit", at=2, maxcor=2)), (R, dict(K=2, ls_mode="unit", at=0)), (R, dict(K=3, ls_mode="unit", at=3, maxcor=3)),
            (R, dict(K=3, ls_mode="unit", at=2, maxcor=2, eps_SY="1/4")), (R, dict(K=2, ls_mode="unit", at=0, ck_pairs=2, maxcor=2, eps_SY="1/4")),
            (R, dict(K=3, ls_mode="unit", at=2, maxcor=2, inplace=1)), (R, dict(K=1, ls_mode="unit", at=0, ck_pairs=2, maxcor=2, inplace=1)),
            (R, dict(K=1, ls_mode="unit", at=0, ck_pairs=2, maxcor=2)), (R, dict(K=2, ls_mode="unit", at=0, ck_pairs=1, maxcor=2))]
    if tier != "quick":
        jobs += [(I, dict(K=3, ls_mode="unit", ftol="sym", ftarget=1)), (R, dict(K=3, ls_mode="unit", at=1, maxcor=2)),
                 (R, dict(K=4, ls_mode="unit", at=3, maxcor=3)), (R, dict(K=4, ls_mode="unit", at=2, maxcor=2)), (R, dict(K=3, ls_mode="lean", at=2, maxcor=2))]
    exs = driver.explore_many(jobs, time_limit=1500 if tier == "quick" else 10000, timeout_ms=30000, max_paths=60000)
    for ex in exs:
        chk.add(ex)
        if ex.candidates:
            rel_common.confirm(chk, ex, "scenario_update", case_of)
    rel_common.finish_common(chk, exs, "scenario_update", case_of, tier)
    chk.stubs.append("update_fun_def: identity, or at call `at` a switch to a second uninterpreted objective (f2, g2): returns f2(x), a fresh f0_old, g2(x) and the stored gradients rewritten as g2 at the stored points")
    chk.bounds = dict(K="2..3 (thorough 4)", switch_at="update call 0 (initial), 1, 2 (thorough 3)", history="<= 3 pairs", n=1, eps_SY="default 2.2e-16; 1/4 in two jobs")
    chk.sample(dict(obligations=["C13.identity_update_leaves_result_identical", "C13.identity_update_leaves_callback_states_identical", "C13.identity_update_leaves_evaluations_identical",
                                 "C13.pairs_are_differences_of_rewritten_gradients", "C13.retained_pairs_satisfy_curvature", "C13.next_iterate_as_restart_on_new_objective"]))
    return chk.finish()
