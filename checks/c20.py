"""C20 check: failures of user callables surface unchanged and leave nothing behind."""
from __future__ import annotations

from symx import driver
from symx.report import Check
from . import rel_common

T = "harness.orch_rel:c20"


def main(tier, seed):
    chk = Check("C20", tier, seed, technique="fault-injecting DSE: each user callable (objective, gradient, callback, update function, scaler, callable ftarget/gtol) raises, at a symbolic call index, an exception of a symbolic type; real main.py/scalar_function.py with stubs; the very exception object must escape and a clean call afterwards must equal the clean call before")
    kinds = ["fun", "jac", "callback", "ftarget", "gtol", "scaler", "update"]
    K = 2
    jobs = [(T, dict(K=K, ls_mode="unit", kind=k)) for k in kinds]
    # faults of the objective / gradient INSIDE the real line search (SciPy DCSRCH tail cut as in C11)
    jobs += [(T, dict(K=1, ls_mode="real", kind=k, maxls=2)) for k in ("fun", "jac")]
    # one-shot faults of the objective inside a finite-difference sweep (perturbed evaluations)
    jobs += [(T, dict(K=1, ls_mode="unit", kind="fun", jac="2-point"))]
    if tier != "quick":
        jobs += [(T, dict(K=2, ls_mode="unit", kind="fun", jac=j)) for j in ("3-point", "none")]
        jobs += [(T, dict(K=3, ls_mode="unit", kind=k)) for k in ("fun", "jac", "callback", "update")]
    exs = driver.explore_many(jobs, time_limit=1500 if tier == "quick" else 7200, timeout_ms=30000, max_paths=60000)
    for ex in exs:
        chk.add(ex)
        if ex.candidates:
            rel_common.confirm(chk, ex, "scenario_fault", lambda p, m: dict(K=3, fault_kind=p["kind"], jac=p.get("jac")))
    rel_common.finish_common(chk, exs[:2], "scenario_fault", lambda p, m: dict(K=3, fault_kind=p["kind"]), tier)
    chk.bounds = dict(K="2 (thorough 3)", fault_points="every call index of every explored run", exception_types=["TypeError", "IndexError", "ValueError", "AssertionError", "ZeroDivisionError", "KeyError", "RuntimeError subclass"], n=1)
    chk.outside.append("faults inside the stubbed kernels' own array accesses (the except IndexError of the Cauchy loop is exercised by C08's harness without faults)")
    chk.sample(dict(obligations=["C20.exception_propagates", "C20.fault_free_call_afterwards_unaffected", "C20.no_module_level_state_changed"]))
    return chk.finish()
