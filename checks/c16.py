"""C16 check: finite-difference gradient modes at the bounds (what this package contributes)."""
from __future__ import annotations

import itertools

from symx import driver
from symx.report import Check, realrun
from harness import common, c15 as H15, c02 as H02
from . import c15 as C15, orch_common, c02 as C02


def main(tier, seed):
    chk = Check("C16", tier, seed, technique="(1) bit-precise QF_FP execution of the real line search and of main.py's iterate update: the point handed to the differencing routine is inside the box with exact float comparisons (so SciPy's bound check cannot raise); (2) DSE of the real ScalarFunction and main.py with an approx_derivative stub recording its arguments: method/steps/bounds/base value passed through, nfev counts stencil evaluations")
    T15, TS = "harness.c15:path", "harness.orch_single:path"
    jobs = []
    modes = ["none", "2-point", "3-point", "cs"]
    for m in modes:
        jobs.append((T15, dict(L=2, jac=m)))
        jobs.append((T15, dict(L=1, jac=m, rel="none")))
        jobs.append((TS, dict(maxiter=1, maxfun=6, maxls=2, ftol="sym", ls_mode="contract", ls_tmax=2, jac_mode=m, groups=["C16"])))
        jobs.append((TS, dict(maxiter=2, maxfun=8, maxls=1, ftol="sym", ls_mode="lean", jac_mode=m, callback_kind="choose", groups=["C16"])))
    jobs.append((TS, dict(maxiter=1, maxfun=6, maxls=2, ftol="sym", ls_mode="contract", ls_tmax=2, jac_mode="2-point", scaler=1, groups=["C16"])))
    # restart of a finite-difference run (checkpoint counters nfev != njev)
    jobs.append((TS, dict(maxiter=2, maxfun=12, maxls=1, ftol="sym", ls_mode="lean", jac_mode="2-point", checkpoint=1, ck_nit=1, ck_nfev=5, ck_njev=2, ck_pairs=1, groups=["C16"])))
    # one-sided / partly infinite boxes (is_boxed False)
    for m, pat in (("2-point", ("fi",)), ("none", ("if",)), ("3-point", ("ii",))):
        jobs.append((TS, dict(maxiter=1, maxfun=6, maxls=2, ftol="sym", ls_mode="contract", ls_tmax=2, jac_mode=m, pattern=pat, groups=["C16"])))
    if tier != "quick":
        for m in modes:
            jobs.append((T15, dict(L=3, jac=m)))
            jobs.append((TS, dict(maxiter=2, maxfun=9, maxls=2, ftol="sym", ls_mode="contract", ls_tmax=2, jac_mode=m, groups=["C16"])))
            jobs.append((TS, dict(maxiter=2, maxfun=8, maxls=1, ftol="sym", ls_mode="lean", jac_mode=m, checkpoint=1, ck_nit=1, ck_nfev=3, ck_pairs=1, groups=["C16"])))
    fp_jobs = C02.fp_jobs(tier, only=("line_search",))
    if tier == "quick":
        fp_jobs = fp_jobs[1:2]      # one-sided box, iteration 0 (decides fastest); the other bit-precise jobs run under C02
    exs = driver.explore_many(jobs, time_limit=1200 if tier == "quick" else 7200, timeout_ms=20000, max_paths=100000)
    for ex in exs:
        # (the wrapper-level jobs run in the finite-difference modes only: "the gradient handed to the solver is the
        # difference quotient of the differencing routine" belongs to C16 as well)
        mine = [c for c in ex.candidates if c["name"].startswith("C16.") or c["name"].endswith("no_exception")
                or (ex.target == T15 and c["name"] in ("C15.gradient_is_fresh", "C15.gradient_is_finite_on_degenerate_sides"))]
        ex.candidates = mine
        chk.add(ex)
        if mine:
            if ex.target == T15:
                C15.confirm(chk, ex, "C16")
            else:
                confirm_run(chk, ex)
    fexs = driver.explore_many(fp_jobs, time_limit=1500 if tier == "quick" else 9000, timeout_ms=120000, max_paths=4000)
    for ex in fexs:
        chk.add(ex)
        if ex.candidates:
            C02.confirm(chk, ex, rename={"C02.updated_iterate_in_box": "C16.iterate_handed_to_differencing_in_box", "C02.line_search_trial_points_in_box": "C16.evaluation_points_in_box"})
    # translator validation: real runs in the four modes from starts on the bounds must not raise and must count stencil evaluations
    cases = [dict(kind="fd_modes", jac=m) for m in modes]
    for case, r in zip(cases, realrun(cases)):
        if "error" in r or r.get("violated"):
            chk.validation_mismatch.append(dict(case=case, real=r))
        else:
            chk.validated += r.get("runs", 1)
    W = common.world("orch")
    from harness import orch, orch_single
    orch.install(W)
    chk.functions = W.functions_encoded(orch_single.FUNCS) + common.world("c15").functions_encoded(H15.FUNCS)
    chk.stubs = ["approx_derivative (SciPy) by contract: raises iff x0 violates the bounds, evaluates the wrapped objective at stencil points inside the bounds, returns an uninterpreted gradient; its keyword arguments are recorded",
                 "direction / line_search contract stubs as in C04 for the run-level part; DCSRCH tail cut in the QF_FP part"]
    chk.assumptions = ["SciPy's differencing accuracy and its own stencil adjustment to the bounds (documented contract) are assumed, not verified",
                       "QF_FP part: |values| <= 2^10, |d| >= 2^-20 or 0, n = 1, m = 0"]
    chk.outside = ["'objective value matches the exact-gradient solution to the accuracy of the scheme': a numerical end-to-end statement about SciPy's stencils, not decided",
                   "n >= 2 and memory m >= 1 in the bit-precise part"]
    chk.bounds = dict(modes=modes, run_level="K<=2 (thorough incl. restart)", wrapper_histories="L<=2 (thorough 3)", bit_precise="line search T=1, iterate update, n=1")
    chk.sample(dict(obligations=["C16.finite_difference_options_passed_through", "C16.f0_given_to_differencing_is_value_at_x", "C16.nfev_counts_stencil_evaluations",
                                 "C16.differencing_called_with_problem_bounds_and_current_value", "C16.iterate_handed_to_differencing_in_box", "no_exception"]))
    return chk.finish()


def confirm_run(chk, ex):
    names = sorted({c["name"] for c in ex.candidates})
    case = dict(kind="fd_modes", jac=ex.params.get("jac_mode"), scaler=bool(ex.params.get("scaler")))
    r = realrun([case])[0]
    v = r.get("violated") or {}
    hit = False
    for name in names:
        key = name if name in v else ("no_exception" if name.endswith("no_exception") and "no_exception" in v else None)
        if key:
            hit = True
            chk.violation(name.replace(".", ":"), "minimize_lbfgsb(jac=%r): %s" % (case["jac"], v[key]), dict(case=case, real=r))
    if not hit and v:
        k = sorted(v)[0]
        chk.violation(k.replace(".", ":"), "minimize_lbfgsb(jac=%r): %s (solver obligations: %s)" % (case["jac"], v[k], names), dict(case=case, real=r))
        hit = True
    if not hit:
        chk.unconfirm(dict(obligations=names, params=ex.params, model=ex.candidates[0]["model"]))
