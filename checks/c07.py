"""C07 check: the callback state is a faithful snapshot usable as a crash checkpoint."""
from __future__ import annotations

from symx import driver
from symx.report import Check
from . import rel_common

T = "harness.orch_rel:c07"


def case_of(params, model):
    return dict(K=params["K"], maxcor=params.get("maxcor", 2))


def main(tier, seed):
    chk = Check("C07", tier, seed, technique="relational DSE: run with a state-retaining callback / without / with maxiter=k / restarted from the retained state object, real main.py with functional stubs; in-place mutation is modelled (shim arrays mutate); z3 decides equality of terms")
    jobs = [(T, dict(K=2, ls_mode="lean")), (T, dict(K=3, ls_mode="unit"))]
    if tier != "quick":
        jobs += [(T, dict(K=3, ls_mode="lean")), (T, dict(K=4, ls_mode="unit", maxcor=2)),
                 (T, dict(K=3, ls_mode="unit", maxcor=1))]
    exs = driver.explore_many(jobs, time_limit=1500 if tier == "quick" else 10000, timeout_ms=30000, max_paths=60000)
    for ex in exs:
        chk.add(ex)
        if ex.candidates:
            rel_common.confirm(chk, ex, "scenario_callback", case_of)
    rel_common.finish_common(chk, exs, "scenario_callback", case_of, tier)
    chk.bounds = dict(K="2..3 (thorough 4)", crash_points="every callback of every explored run", n="1")
    chk.outside.append("n >= 2 in the relational runs (nlsat undecided on the curvature products)")
    chk.sample(dict(runs=["N: no callback", "C: callback keeps the state objects, returns False", "M_k: maxiter=k", "R: restart from the kept state object AFTER C has finished"],
                    obligations=["C07.callback_returning_false_does_not_alter_the_run", "C07.state_unchanged_after_callback_returns", "C07.state_equals_result_of_run_with_maxiter_k",
                                 "C07.xk_argument_equals_state_x", "C07.restart_from_state_gives_the_next_iterate", "C07.restart_from_state_equals_uninterrupted"]))
    return chk.finish()
