"""C08 check: Cauchy point = first local minimiser along the projected path."""
from __future__ import annotations

from symx import driver
from symx.report import Check, realrun
from harness import c08 as H, common


def agree(summary, real):
    if "error" in real:
        return False
    out = summary.get("out") if isinstance(summary, dict) else None
    if out is None:
        return None
    for a, b in zip(out, real["x_cp"]):
        if isinstance(b, str):
            return None
        if abs(a - b) > 1e-7 * (1 + abs(b)):
            return False
    return True


def confirm(chk, ex):
    """Replay the solver's counterexamples on the real get_cauchy_point."""
    by = {}
    for c in ex.candidates:
        by.setdefault(c["name"], []).append(c)
    for name, cands in by.items():
        cands = cands[:6]
        cases = [H.real_case(ex.params, c["model"]) for c in cands]
        res = realrun(cases)
        hit = False
        for c, case, r in zip(cands, cases, res):
            bad = None
            if "error" in r:
                bad = "raises " + r["error"]
            elif name == "gcp_equals_first_local_minimiser":
                if any(isinstance(v, str) for v in r["x_cp"]) or any(abs(a - b) > 1e-7 * (1 + abs(b)) for a, b in zip(r["x_cp"], r["ref"])):
                    bad = "x_cp=%s but the first local minimiser on the projected path is %s" % (r["x_cp"], r["ref"])
            elif name == "gcp_feasible":
                if not r["feasible"]:
                    bad = "x_cp=%s outside the box" % (r["x_cp"],)
            elif name == "gcp_model_not_larger":
                if r["q_xcp"] > 1e-9:
                    bad = "model value at x_cp %g > 0" % r["q_xcp"]
            elif name == "c_is_projection_on_memory_basis":
                if r["c_proj"] is not None and any(abs(a - b) > 1e-7 * (1 + abs(b)) for a, b in zip(r["c"], r["c_proj"])):
                    bad = "c=%s but W'(x_cp-x)=%s" % (r["c"], r["c_proj"])
            elif name == "no_exception":
                pass
            if bad:
                hit = True
                what = "get_cauchy_point(n=%d, m=%d, x=%s, g=%s, l=%s, u=%s): %s" % (
                    case["n"], len(case["S"]), case["x"], case["g"], case["l"], case["u"], bad)
                chk.violation("C08:%s" % name, what, dict(case=case, real=r))
                break
        if not hit:
            chk.unconfirm(dict(obligation=name, params=ex.params, model=cands[0]["model"], real=res[0] if res else None))


def main(tier, seed):
    chk = Check("C08", tier, seed, technique="dynamic symbolic execution of the real get_cauchy_point over z3 reals (QF_NRA), oracle = first local minimiser by definition with dense B")
    jobs = []
    if tier == "quick":
        for pat in common.bound_patterns(2):
            jobs.append(("harness.c08:path", dict(n=2, m=0, pattern=pat)))
            jobs.append(("harness.c08:path", dict(n=2, m=1, pattern=pat, which=0)))
        chk.bounds = dict(n=2, m=[0, 1], bound_patterns="all 16 finite/infinite patterns", memory_instances="1 concrete pair (s=(3,4), y=(24,7))")
        tl, vk = 900, 12
    else:
        for pat in common.bound_patterns(2):
            jobs.append(("harness.c08:path", dict(n=2, m=0, pattern=pat)))
            for which in (0, 1, 2):
                jobs.append(("harness.c08:path", dict(n=2, m=1, pattern=pat, which=which, seed=seed)))
        for pat in common.bound_patterns(3):
            jobs.append(("harness.c08:path", dict(n=3, m=0, pattern=pat)))
        for pat in [("ff", "ff"), ("ff", "fi"), ("if", "ff"), ("ii", "ff")]:
            jobs.append(("harness.c08:path", dict(n=2, m=2, pattern=pat, which=1, seed=seed)))
        chk.bounds = dict(n=[2, 3], m="0,1 (3 instances) for n=2 all patterns; m=0 for n=3 all 64 patterns; m=2 for n=2 on 4 patterns")
        tl, vk = 7200, 40
    exs = driver.explore_many(jobs, time_limit=tl, timeout_ms=60000 if tier != "quick" else 30000)
    W = common.world()
    for ex in exs:
        chk.add(ex)
        if ex.candidates:
            confirm(chk, ex)
        chk.validate(ex, H.real_case, agree, k=vk if tier == "quick" else vk)
    ex0 = exs[0]
    if ex0.witnesses:
        chk.sample(dict(params=ex0.params, path_prefix=ex0.witnesses[0]["prefix"], witness=ex0.witnesses[0]["witness"]))
    chk.sample(dict(obligation="gcp_equals_first_local_minimiser", form="pc /\\ OR_i x_cp[i] != ref[i]  (must be unsat on every path)"))
    chk.functions = W.functions_encoded(H.FUNCS)
    chk.outside = ["n >= 4 (n = 3 only in thorough, m = 0)", "symbolic memory contents (pairs are concrete rational instances)",
                   "float64 rounding (mode R: exact real arithmetic)", "|g_i| outside {0} u [2^-10, 2^10], |x|,|l|,|u| > 2^10"]
    chk.assumptions = ["l <= x <= u, projected gradient non-zero", "g_i = 0 or 2^-10 <= |g_i| <= 2^10 (keeps the Fortran f'' floor 1e-30 inactive)",
                       "B positive definite: pairs generated as y = A s with A SPD", "shim numpy/scipy (symx) means what NumPy/SciPy mean: validated per run by witness replay"]
    return chk.finish()
