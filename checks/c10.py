"""C10 check: the limited-memory matrix is the BFGS matrix of the stored pairs and stays SPD."""
from __future__ import annotations

from symx import driver
from symx.report import Check, realrun
from harness import c10 as H, common


def agree(summary, real):
    if "error" in real:
        return False
    if not isinstance(summary, dict):
        return None
    if "out" in summary:
        out = summary.get("out")
        if out is None:
            return None
        for ra, rb in zip(out, real["B"]):
            for a, b in zip(ra, rb):
                if abs(a - b) > 1e-6 * (1 + abs(b)):
                    return False
        return True
    cls = summary.get("cls")
    if cls in ("accepted", "rejected"):
        return (cls == "accepted") == real["appended"] and real["spec_accept"] == real["appended"]
    return None


def confirm(chk, ex):
    by = {}
    for c in ex.candidates:
        by.setdefault(c["name"], []).append(c)
    for name, cands in by.items():
        cands = cands[:6]
        cases = [H.real_case(ex.params, c["model"]) for c in cands]
        res = realrun(cases)
        hit = False
        for c, case, r in zip(cands, cases, res):
            bad = None
            if "error" in r:
                bad = "raises " + r["error"]
            elif case["kind"] == "matstep":
                if name == "accepted_iff_curvature" and r["spec_accept"] != r["appended"]:
                    bad = "curvature test says accept=%s but the pair was %s" % (r["spec_accept"], "stored" if r["appended"] else "not stored")
                elif name == "deque_discipline":
                    exp = min(len(case["X"]) + 1, case["maxcor"] + 1) if r["appended"] else len(case["X"])
                    if r["appended"] and (r["len_after"] != exp or r["len_G_after"] != exp or not r["survivors_ok"]):
                        bad = "after an accepted update the memory holds %d/%d points (expected %d), survivors most-recent-in-order=%s" % (r["len_after"], r["len_G_after"], exp, r["survivors_ok"])
                    if not r["appended"] and not (r["unchanged"] and r["mats_unchanged"]):
                        bad = "a rejected update changed the memory (deques unchanged=%s, matrices unchanged=%s)" % (r["unchanged"], r["mats_unchanged"])
                    if not r["same_object"]:
                        bad = "a different matrices object was returned"
                elif name == "stored_pairs_satisfy_curvature" and not r["pairs_ok"]:
                    bad = "a stored pair violates s.y > eps*y.y"
                elif name == "at_most_maxcor_pairs" and r["len_after"] - 1 > case["maxcor"]:
                    bad = "%d pairs stored with maxcor=%d" % (r["len_after"] - 1, case["maxcor"])
                elif name == "theta_is_yy_over_sy" and r.get("theta") is not None and abs(r["theta"] - r["theta_ref"]) > 1e-9 * (1 + abs(r["theta_ref"])):
                    bad = "theta=%r but y.y/s.y=%r" % (r["theta"], r["theta_ref"])
                elif name == "S_Y_are_deque_differences" and r.get("S") is not None and (r["S"] != r["S_ref"] or r["Y"] != r["Y_ref"]):
                    bad = "S/Y are not the differences of the stored points/gradients"
            else:
                import numpy as np
                B, Bd = np.array(r["B"]), np.array(r["B_dense"])
                sc = 1 + abs(Bd).max()
                if name == "compact_equals_dense_bfgs" and abs(B - Bd).max() > 1e-7 * sc:
                    bad = "theta*I - W M W' = %s but the dense BFGS matrix of the stored pairs is %s" % (r["B"], r["B_dense"])
                elif name == "symmetric" and r["asym"] > 1e-9 * sc:
                    bad = "matrix not symmetric (max asymmetry %g)" % r["asym"]
                elif name == "positive_definite" and r["eig_min"] <= 0:
                    bad = "smallest eigenvalue %g <= 0" % r["eig_min"]
                elif name == "secant_equation" and r["secant_res"] > 1e-7 * sc:
                    bad = "B s != y for the newest pair (residual %g)" % r["secant_res"]
                elif name == "theta_is_yy_over_sy" and abs(r["theta"] - r["theta_ref"]) > 1e-9 * (1 + abs(r["theta_ref"])):
                    bad = "theta=%r but y.y/s.y=%r" % (r["theta"], r["theta_ref"])
                elif name in ("valid_pair_accepted",) and r["npairs"] < len(case["S"]) and r["npairs"] < case["maxcor"]:
                    bad = "a pair with s.y >= 2^-6 was not stored"
            if bad:
                hit = True
                chk.violation("C10:%s" % name, "update_lbfgs_matrices %s: %s" % ({k: v for k, v in case.items() if k != "kind"}, bad), dict(case=case, real=r))
                break
        if not hit:
            chk.unconfirm(dict(obligation=name, params=ex.params, model=cands[0]["model"], real=res[0] if res else None))


def main(tier, seed):
    chk = Check("C10", tier, seed, technique="DSE of the real update_lbfgs_matrices/form_invMfactors/bmv over exact terms; identities decided on rational-function normal forms, inequalities by z3 QF_NRA; inductive step from an arbitrary valid memory state")
    jobs = []
    S, C = "harness.c10:step", "harness.c10:compact"
    ns = [1, 2] if tier == "quick" else [1, 2, 3]
    mc = [1, 2, 3] if tier == "quick" else [1, 2, 3, 4]
    for n in ns:
        for maxcor in mc:
            for L in range(1, maxcor + 2):
                jobs.append((S, dict(n=n, maxcor=maxcor, len=L)))
    # forced rebuild (is_force_update=True: what the solver does after update_fun_def) with a rejected candidate
    for maxcor, L in ((2, 2), (2, 3), (3, 3)):
        jobs.append((S, dict(n=2, maxcor=maxcor, len=L, force=1)))
    # non-default curvature threshold (the solver's eps_SY option): accept/reject and the stored-pair invariant use it
    for n, maxcor, L in ((1, 1, 1), (1, 1, 2), (2, 2, 2), (2, 2, 3)):
        jobs.append((S, dict(n=n, maxcor=maxcor, len=L, eps="1/4")))
    jobs.append((S, dict(n=2, maxcor=2, len=2, eps="0")))
    jobs += [(C, dict(n=1, m=1)), (C, dict(n=2, m=1)), (C, dict(n=3, m=1)),
             (C, dict(n=2, m=2, nsym=1, ylin=1, seed=seed)), (C, dict(n=2, m=3, nsym=1, ylin=1, seed=seed)),
             (C, dict(n=2, m=2, nsym=1, trust_pd=1, seed=seed)), (C, dict(n=2, m=3, nsym=1, trust_pd=1, seed=seed))]
    if tier != "quick":
        jobs += [(C, dict(n=3, m=2, nsym=1, ylin=1, seed=seed)), (C, dict(n=3, m=2, nsym=1, trust_pd=1, seed=seed)),
                 (C, dict(n=2, m=2, nsym=1, ylin=1, which=2, seed=seed + 1)), (C, dict(n=3, m=3, nsym=1, ylin=1, seed=seed)),
                 (C, dict(n=2, m=4, nsym=1, ylin=1, seed=seed)), (C, dict(n=2, m=4, nsym=1, trust_pd=1, seed=seed)),
                 (C, dict(n=1, m=2, nsym=2)), (C, dict(n=1, m=3, nsym=2, which=1, seed=seed))]
    exs = driver.explore_many(jobs, time_limit=1200 if tier == "quick" else 7200, timeout_ms=30000 if tier == "quick" else 120000)
    W = common.world()
    for ex in exs:
        chk.add(ex)
        if ex.candidates:
            confirm(chk, ex)
        chk.validate(ex, H.real_case, agree, k=6)
    chk.sample(dict(step=dict(state="X, G deques of length 1..maxcor+1, all entries symbolic, consecutive pairs satisfy s.y > eps*y.y",
                              action="one real update_lbfgs_matrices(xk, gk) with symbolic xk, gk",
                              obligations=["accepted_iff_curvature", "deque_discipline", "stored_pairs_satisfy_curvature", "at_most_maxcor_pairs", "theta_is_yy_over_sy", "S_Y_are_deque_differences"])))
    chk.sample(dict(compact=dict(obligations=["compact_equals_dense_bfgs", "symmetric", "positive_definite", "secant_equation", "theta_is_yy_over_sy"],
                                 note="B_impl(e_j) = theta e_j - W bmv(invMfactors, W' e_j) through the real code; identities hold as equal normal forms")))
    chk.functions = W.functions_encoded(H.FUNCS)
    chk.bounds = dict(step="n<=2 (thorough 3), maxcor<=3 (thorough 4), every deque length 1..maxcor+1, one update (inductive step); curvature threshold eps in {2.2e-16 (default), 1/4, 0}",
                      compact="fully symbolic pair for (n,m) in {(1,1),(2,1),(3,1)}; m=2,3 (thorough 4): older pairs concrete instance, newest pair symbolic; positive definiteness for m>=2 on the family y = A s (A concrete SPD)")
    chk.outside = ["n > 3, maxcor > 4", "fully symbolic memory with m >= 2 and n >= 2 (polynomial blow-up)", "positive definiteness for arbitrary newest y when m >= 2 (nlsat undecided at 300 s): there the identity obligations take PD of the factorised matrices as an assumption",
                   "float64 rounding (mode R)", "the property's 'up to 40 updates' as an explicit sequence: covered through the inductive step for the deque discipline only"]
    chk.stubs = ["form_invMfactors replaced by a token in the step harness (its algebra is the compact harness)"]
    chk.assumptions = ["step: representation invariant = consecutive stored pairs satisfy the curvature test (re-established by the obligation stored_pairs_satisfy_curvature)",
                       "compact: s.y >= 2^-6, |s|,|y| <= 16", "trust_pd runs: Cholesky pivots positive (assumed, not forked)"]
    return chk.finish()
