"""C02 check: every evaluated, reported and returned point lies inside the box, exactly."""
from __future__ import annotations

from symx import driver
from symx.report import Check, realrun
from harness import c02 as H, common
from . import orch_common

KIND = {"harness.c02:line_search": "fp_linesearch", "harness.c02:subspace": "fp_subspace", "harness.c02:cauchy": "fp_cauchy"}


def fp_jobs(tier, only=None):
    jobs = [("harness.c02:clip", dict(n=2)),
            ("harness.c02:line_search", dict(n=1, T=1, iter=1, pattern=("ff",))), ("harness.c02:line_search", dict(n=1, T=1, iter=0, pattern=("fi",))),
            ("harness.c02:subspace", dict(n=1, pattern=("ff",)))]
    if tier != "quick":
        jobs += [("harness.c02:line_search", dict(n=1, T=2, iter=1, pattern=("ff",))), ("harness.c02:line_search", dict(n=1, T=1, iter=0, pattern=("ff",))),
                 ("harness.c02:subspace", dict(n=2, pattern=("ff", "ff"))), ("harness.c02:cauchy", dict(n=1, pattern=("ff",))),
                 ("harness.c02:subspace", dict(n=1, pattern=("if",))), ("harness.c02:cauchy", dict(n=1, pattern=("fi",)))]
    if only:
        jobs = [j for j in jobs if j[0].split(":")[1] in only]
    return jobs


def confirm(chk, ex, rename=None):
    rename = rename or {}
    kind = KIND.get(ex.target)
    by = {}
    for c in ex.candidates:
        by.setdefault(c["name"], []).append(c)
    for name, cands in by.items():
        out_name = rename.get(name, name)
        hit = False
        if kind is None:
            chk.unconfirm(dict(obligation=name, params=ex.params, model=cands[0]["model"]))
            continue
        cases = [H.real_case(ex.params, c["model"], kind) for c in cands[:6]]
        for case, r in zip(cases, realrun(cases)):
            bad = None
            if "error" in r:
                bad = "raises " + r["error"]
            elif kind == "fp_linesearch":
                for run in r["runs"]:
                    if run.get("exception"):
                        bad = "line search raises " + run["exception"]
                    elif run["outside"] and "trial" in name:
                        bad = "the line search evaluates the objective at %s, outside the box [%s, %s] (x0=%s, xbar=%s)" % (run["outside"][0], case["l"], case["u"], case["x"], case["xbar"])
                    elif run.get("iterate_outside") and "iterate" in name:
                        bad = "the updated iterate %s is outside the box [%s, %s] (x0=%s, xbar=%s, step=%r)" % (run["iterate"], case["l"], case["u"], case["x"], case["xbar"], run["step"])
                    if bad:
                        break
            elif r.get("outside"):
                bad = "%s returns %s outside the box l=%s u=%s" % (kind[3:], r.get("xbar") or r.get("x_cp"), case["l"], case["u"])
            if bad:
                hit = True
                chk.violation(out_name.replace(".", ":"), bad, dict(case=case, real=r))
                break
        if not hit:
            chk.unconfirm(dict(obligation=name, params=ex.params, model=cands[0]["model"]))


def main(tier, seed):
    chk = Check("C02", tier, seed, technique="bit-precise symbolic execution (z3 QF_FP, IEEE binary64, round-nearest-even) of the real clip2bounds, line_search (DCSRCH tail cut) + main.py's iterate-update statements, subspace_minimization and get_cauchy_point (m=0): every produced point satisfies lb <= p <= ub with exact float comparisons; undecided queries are retried on a term-depth abstraction; plus the exact-real run-level exploration of where the user callables are invoked")
    # run level (exact reals): every point handed to the user's callables / reported / returned is in the box
    T = "harness.orch_single:path"
    jobs = []
    for j in orch_common.lattice(tier, "C02")[:: 3 if tier == "quick" else 1]:
        jobs.append((T, j))
    for m in ("none", "3-point"):
        jobs.append((T, dict(maxiter=1, maxfun=6, maxls=2, ftol="sym", ls_mode="contract", ls_tmax=2, jac_mode=m, groups=["C02"])))
    jobs.append((T, dict(n=2, pattern=("ff", "ff"), maxiter=1, maxfun=3, maxls=1, ftol="sym", ls_mode="lean", callback_kind="choose", groups=["C02"])))
    # user callables that scribble over the array they receive: the package's own points must not be affected
    jobs.append((T, dict(maxiter=1, maxfun=4, maxls=2, ftol="sym", ls_mode="contract", ls_tmax=2, mutate_args=1, groups=["C02"])))
    jobs.append((T, dict(maxiter=1, maxfun=6, maxls=1, ftol="sym", ls_mode="lean", jac_mode="2-point", mutate_args=1, groups=["C02"])))
    # a single-precision start vector: conversions into float32 are modelled by an uninterpreted rounding (relative error
    # 2^-24), so a point that goes through one on its way to the user's callables can leave the box
    jobs.append((T, dict(maxiter=1, maxfun=4, maxls=2, ftol="sym", ls_mode="contract", ls_tmax=2, x0_dtype="float32", groups=["C02"])))
    jobs.append((T, dict(maxiter=1, maxfun=6, maxls=1, ftol="sym", ls_mode="lean", jac_mode="2-point", x0_dtype="float32", groups=["C02"])))
    exs = driver.explore_many(jobs, time_limit=900 if tier == "quick" else 3600, timeout_ms=20000, max_paths=60000)
    for ex in exs:
        ex.candidates = [c for c in ex.candidates if c["name"].startswith("C02.") or c["name"].endswith("no_exception")]
        chk.add(ex)
        if ex.candidates:
            orch_common.confirm(chk, ex, "C02")
    fexs = driver.explore_many(fp_jobs(tier), time_limit=1500 if tier == "quick" else 10000, timeout_ms=15000 if tier == "quick" else 60000, max_paths=4000)
    for ex in fexs:
        chk.add(ex)
        if ex.candidates:
            confirm(chk, ex)
    # translator validation of the FP semantics: path witnesses replayed on the real kernels must be inside the box
    cases = []
    for ex in fexs:
        kind = KIND.get(ex.target)
        if kind is None:
            continue
        for w in ex.witnesses[:6]:
            cases.append(H.real_case(ex.params, w["witness"], kind))
    for case, r in zip(cases, realrun(cases)):
        if "error" in r:
            chk.validation_mismatch.append(dict(case=case, real=r))
        elif r.get("outside") or any(run.get("outside") or run.get("iterate_outside") for run in r.get("runs", [])):
            chk.validation_mismatch.append(dict(case=case, real=r, note="the real kernel leaves the box on a path witness although no obligation failed"))
        else:
            chk.validated += 1
    W = common.world("fp")
    for m in ("lbfgsb.linesearch", "lbfgsb.subspacemin", "lbfgsb.cauchy", "lbfgsb.base", "lbfgsb.main"):
        W.load(m)
    chk.functions = W.functions_encoded(["lbfgsb.linesearch.line_search", "lbfgsb.linesearch.max_allowed_steplength", "lbfgsb.subspacemin.subspace_minimization",
                                         "lbfgsb.subspacemin.get_freev", "lbfgsb.cauchy.get_cauchy_point", "lbfgsb.base.clip2bounds", "lbfgsb.main.minimize_lbfgsb"])
    chk.stubs = ["bit-precise part: DCSRCH tail cut (next trial any float in [stpmin, stpmax]); objective/gradient values arbitrary finite floats",
                 "run-level part (exact reals): kernel contract stubs and approx_derivative stub as in C04/C16"]
    chk.assumptions = ["bit-precise part: inputs finite, |values| <= 2^10, |d|, |g| >= 2^-20 or 0, n = 1 (thorough 2), empty memory (m = 0): with memory the kernels go through BLAS/Cholesky, which is not bit-modelled",
                       "x0 feasible, direction d = xbar - x0 for a feasible xbar (what the subspace step returns)"]
    chk.outside = ["memory m >= 1 in float64 (dot products, Cholesky, triangular solves)", "n >= 3", "SciPy's own stencil points (its documented contract: inside the bounds)",
                   "more than 2 line-search trials in the bit-precise part"]
    chk.bounds = dict(bit_precise="n=1 (thorough 2), m=0, T<=1 (thorough 2); get_cauchy_point only in thorough (its obligations are slow: up to 150 s per query, some undecided)", run_level="as C04 (K<=2)")
    chk.sample(dict(obligations=["C02.clipped_start_in_box", "C02.line_search_trial_points_in_box", "C02.updated_iterate_in_box", "C02.subspace_point_in_box", "C02.cauchy_point_in_box",
                                 "C02.evaluation_points_in_box (run level)", "C02.reported_points_in_box (run level)", "C02.fixed_components_never_move (run level)"]))
    return chk.finish()
