"""Shared driver for the single-run orchestration properties (C03, C04, C05, C18-provenance)."""
from __future__ import annotations

import itertools
import json

from symx import driver
from symx.report import Check, realrun
from harness import orch_single as H, common

T = "harness.orch_single:path"


def lattice(tier, group):
    jobs = []
    combos = [("none", "float"), ("float", "float"), ("callable", "callable")]
    mi = [0, 1]
    mf = [1, 2, 3] if tier == "quick" else [1, 2, 3, 4]
    ml = [1, 2] if tier == "quick" else [1, 2, 3]
    tmax = 2 if tier == "quick" else 3
    for maxiter, maxfun, maxls, (ft, gt) in itertools.product(mi, mf, ml, combos):
        jobs.append(dict(maxiter=maxiter, maxfun=maxfun, maxls=maxls, ftol="sym", ftarget_kind=ft, gtol_kind=gt,
                         callback_kind="choose", ls_mode="contract", ls_tmax=tmax))
    # no callback at all (different code path: no state object is built)
    for maxfun in (2, 3):
        jobs.append(dict(maxiter=1, maxfun=maxfun, maxls=2, ftol="sym", ftarget_kind="float", ls_mode="contract", ls_tmax=tmax))
    # restart from an arbitrary coherent checkpoint (one inductive step of the bookkeeping)
    for maxiter, maxfun, pairs, ft in itertools.product([1, 2, 3], [2, 3, 5], [0, 1], ["none", "float"]):
        jobs.append(dict(maxiter=maxiter, maxfun=maxfun, maxls=2, ftol="sym", ftarget_kind=ft, callback_kind="choose",
                         checkpoint=1, ck_nit=2, ck_nfev=3, ck_pairs=pairs, ls_mode="contract", ls_tmax=2))
    # two iterations, lean line search: state carried between iterations
    for maxfun, cb in itertools.product([3, 5], ["choose", None]):
        jobs.append(dict(maxiter=2, maxfun=maxfun, maxls=1, ftol="sym", ftarget_kind="float", callback_kind=cb, ls_mode="lean", maxcor=1))
    jobs.append(dict(maxiter=4, maxfun=6, maxls=1, ftol="sym", callback_kind="choose", checkpoint=1, ck_nit=2, ck_nfev=3, ck_pairs=2,
                     ls_mode="lean", maxcor=2))
    # two iterations after a restart WITH history and several trials per line search: a failed line search
    # followed by a memory reset and another line search inside a small evaluation budget
    for maxfun in (4, 5, 6):
        jobs.append(dict(maxiter=4, maxfun=maxfun, maxls=2, ftol=0.0, checkpoint=1, ck_nit=2, ck_nfev=3, ck_pairs=1,
                         ls_mode="contract", ls_tmax=2, maxcor=2))
    if tier != "quick":
        jobs.append(dict(maxiter=3, maxfun=6, maxls=1, ftol="sym", ftarget_kind="float", callback_kind="choose", ls_mode="lean", maxcor=2))
        jobs.append(dict(maxiter=2, maxfun=5, maxls=2, ftol="sym", ftarget_kind="float", callback_kind="choose", ls_mode="contract", ls_tmax=2, maxcor=2))
        jobs.append(dict(n=2, pattern=("ff", "fi"), maxiter=2, maxfun=4, maxls=1, ftol="sym", callback_kind="choose", ls_mode="lean", maxcor=2))
        jobs.append(dict(n=2, pattern=("ff", "ii"), maxiter=1, maxfun=3, maxls=2, ftol="sym", ftarget_kind="float", callback_kind="choose", ls_mode="contract", ls_tmax=2))
        for maxiter in (1, 3):
            jobs.append(dict(maxiter=maxiter, maxfun=6, maxls=2, ftol="sym", callback_kind="choose", checkpoint=1, ck_nit=2, ck_nfev=4, ck_pairs=2,
                             ls_mode="contract", ls_tmax=2, maxcor=2))
    for j in jobs:
        j["groups"] = [group]
        j = {k: v for k, v in j.items() if v is not None}
    return [{k: v for k, v in j.items() if v is not None} for j in jobs]


def scenario_case(params, model):
    f = common.fr_to_float
    c = dict(kind="scenario_single")
    for k in ("maxiter", "maxfun", "maxls", "maxcor", "ftarget_kind", "gtol_kind", "callback_kind", "checkpoint", "ck_nit", "ck_pairs", "jac_mode", "x0_dtype", "jac_buffer", "mutate_args", "ck_abnormal"):
        if k in params:
            c[k] = params[k]
    c["maxcor"] = params.get("maxcor", 2)
    c["ftol"] = f(model.get("ftol", "0")) if params.get("ftol") == "sym" else params.get("ftol", 0.0)
    c["gtol"] = f(model.get("gtol", "0"))
    return c


def confirm(chk, ex, pid):
    by = {}
    for c in ex.candidates:
        by.setdefault(c["name"], []).append(c)
    for name, cands in by.items():
        cands = cands[:3]
        cases = [scenario_case(ex.params, c["model"]) for c in cands]
        # also the scenario with practical tolerances
        cases.append(dict(cases[0], ftol=0.0, gtol=1e-8))
        if name in ("C04.nfev_within_budget", "C04.nit_within_budget", "C04.eval_message_true", "C04.iter_message_true", "C03.objective_never_increases",
                    "C05.nfev_equals_calls", "C05.njev_equals_calls", "C05.fun_belongs_to_x", "C05.jac_belongs_to_x", "C05.callback_fun_belongs_to_x",
                    "C05.callback_jac_belongs_to_x", "C03.reported_fun_never_increases"):
            cases.append(dict(cases[0], ftol=0.0, gtol=1e-8, sweep=1))
        res = realrun(cases)
        hit = False
        for case, r in zip(cases, res):
            if "error" in r:
                continue
            for run in r["runs"]:
                v = run.get("violated") or {}
                if name in v or (name == "no_exception" and "no_exception" in v):
                    hit = True
                    cfgd = {k: case[k] for k in ("maxiter", "maxfun", "maxls", "maxcor", "ftol", "gtol") if k in case}
                    cfgd.update(run.get("config") or {})
                    what = "minimize_lbfgsb on %s with %s%s: %s" % (
                        run["problem"], cfgd,
                        (", restart from a checkpoint with nit=%d" % case["ck_nit"]) if run.get("restart", case.get("checkpoint")) else "", v[name])
                    chk.violation("%s" % name.replace(".", ":"), what, dict(case=case, real=run))
                    break
            if hit:
                break
        if not hit:
            chk.unconfirm(dict(obligation=name, params=ex.params, model=cands[0]["model"], info=cands[0].get("info")))


def run(pid, tier, seed, technique, extra_jobs=None, groups=None):
    chk = Check(pid, tier, seed, technique=technique)
    jobs = [(T, j) for j in lattice(tier, pid)] + [(T, j) for j in (extra_jobs or [])]
    exs = driver.explore_many(jobs, time_limit=1500 if tier == "quick" else 7200, timeout_ms=20000, max_paths=40000)
    W = common.world("orch")
    from harness import orch
    orch.install(W)
    for ex in exs:
        chk.add(ex)
        if ex.candidates:
            confirm(chk, ex, pid)
    # translator validation: the scenario of a sample of explorations is replayed on the real API and audited
    sample = [ex for ex in exs if not ex.candidates][:: max(1, len(exs) // (6 if tier == "quick" else 20))]
    cases = []
    for ex in sample:
        w = ex.witnesses[0]["witness"] if ex.witnesses else {}
        cases.append(dict(scenario_case(ex.params, w), ftol=0.0, gtol=1e-8))
    for ex, r in zip(sample, realrun(cases)):
        if "error" in r:
            chk.validation_mismatch.append(dict(params=ex.params, real=r))
            continue
        for rr in r["runs"]:
            mine = {k: v for k, v in (rr.get("violated") or {}).items() if k.startswith(pid + ".")}
            if mine:
                chk.validation_mismatch.append(dict(params=ex.params, real=rr, note="symbolic exploration found no violation but the real audit does"))
            else:
                chk.validated += 1
    chk.functions = W.functions_encoded(H.FUNCS)
    chk.stubs = ["direction (get_cauchy_point+get_freev+subspace_minimization): fresh xbar in the box with grad.(xbar-x) < 0, functional in (x, grad, S, Y) [contract discharged by C08/C09]",
                 "line_search: <= min(max_iter, T) trial evaluations x + a d, 0 < a <= 1, returns None or an evaluated a with f < f0 [contract discharged by C11]; 'lean' = one trial, accept iff better",
                 "form_invMfactors: opaque token", "objective/gradient/callback/ftarget/gtol: uninterpreted oracles"]
    chk.assumptions = ["objective values finite (no NaN)", "checkpoint coherent: its fun/jac are the objective's at its x, its pairs are genuine differences with s.y > 1e-3(1+y.y)",
                       "kernel contracts as listed under stubs", "n = 1 (n = 2 in thorough): the orchestration code is dimension-agnostic array code"]
    chk.bounds = dict(iterations="K<=1 full lattice (fresh and from an arbitrary checkpoint), K<=2 (thorough 3) with the lean line-search stub",
                      maxiter="0..3", maxfun="1..6", maxls="1..3", trials_per_line_search="<=2 (thorough 3)", n="1 (thorough: 2)")
    chk.outside = ["more iterations / trials than the bound", "float64 rounding", "finite-difference gradient modes (C16)"]
    return chk
