"""C11 check: line-search steps are feasible, within budget and strictly downhill."""
from __future__ import annotations

from symx import driver
from symx.report import Check, realrun
from harness import c11 as H, common


def judge(name, run):
    """Does this real run violate the obligation `name`?"""
    if run.get("exception"):
        return "raises " + run["exception"]
    if name == "evaluations_within_budget":
        return None
    if name == "trial_points_in_box" and not run["in_box"]:
        return "a trial point lies outside the box"
    if run["step"] is None:
        return None
    if name in ("strictly_downhill", "returned_step_was_evaluated") and not run["downhill"]:
        return "returned step %r has f = %r >= f(start) = %r" % (run["step"], run["f_step"], run["f0"])
    if name == "step_positive_and_feasible" and not run["feasible"]:
        return "returned step %r leaves the box or is not positive" % run["step"]
    return None


def confirm(chk, ex):
    by = {}
    for c in ex.candidates:
        by.setdefault(c["name"], []).append(c)
    for name, cands in by.items():
        cands = cands[:5]
        cases = [H.real_case(ex.params, c["model"]) for c in cands]
        res = realrun(cases)
        hit = False
        for c, case, r in zip(cands, cases, res):
            if "error" in r:
                continue
            for run in r["runs"]:
                bad = judge(name, run)
                if name == "evaluations_within_budget" and run["evaluations"] > case["T"]:
                    bad = "%d objective evaluations with a cap of %d" % (run["evaluations"], case["T"])
                if bad:
                    hit = True
                    what = "line_search(x0=%s, d=%s, l=%s, u=%s, iter=%d, max_iter=%d) on phi=%s: %s" % (
                        case["x0"], case["d"], case["l"], case["u"], case["iter"], case["T"], run["spec"]["type"], bad)
                    chk.violation("C11:%s" % name, what, dict(case=dict(case, functions=[run["spec"]]), real=run))
                    break
            if hit:
                break
        if not hit:
            chk.unconfirm(dict(obligation=name, params=ex.params, model=cands[0]["model"], real=res[0] if res else None))


def main(tier, seed):
    chk = Check("C11", tier, seed, technique="DSE of the real line_search + max_allowed_steplength + SciPy's DCSRCH._iterate with an uninterpreted objective on the ray; z3 QF_LRA/NRA per path; trial points in the box also bit-precisely (z3 QF_FP, binary64) for n = 1")
    T = "harness.c11:path"
    jobs = []
    Ts = [1, 2] if tier == "quick" else [1, 2, 3]
    for t in Ts:
        for it in (0, 1):
            for pat in (("ff",), ("ii",), ("fi",)):
                jobs.append((T, dict(n=1, T=t, iter=it, pattern=pat, cut=True)))
    jobs.append((T, dict(n=2, T=1, iter=1, pattern=("ff", "fi"), cut=True)))
    jobs.append((T, dict(n=1, T=2, iter=1, pattern=("ff",), cut=True, tol="sym")))
    jobs.append((T, dict(n=1, T=1, iter=0, pattern=("fi",), cut=True, tol="sym")))
    if tier != "quick":
        jobs.append((T, dict(n=2, T=2, iter=1, pattern=("ff", "fi"), cut=True)))
        jobs.append((T, dict(n=2, T=2, iter=0, pattern=("ii", "if"), cut=True)))
        jobs.append((T, dict(n=1, T=2, iter=1, pattern=("ff",), cut=False)))
        jobs.append((T, dict(n=1, T=4, iter=1, pattern=("ff",), cut=True)))
    exs = driver.explore_many(jobs, time_limit=900 if tier == "quick" else 9000, timeout_ms=30000, max_paths=60000 if tier == "quick" else 600000)
    W = common.world()
    for ex in exs:
        chk.add(ex)
        if ex.candidates:
            confirm(chk, ex)
    # "evaluates only points inside the box" is a statement about float64 values: the bit-precise (QF_FP) execution of
    # the real line search that C02 uses, here for the trial points only (quick: the one-sided box at iteration 0)
    from . import c02 as C02
    fjobs = C02.fp_jobs(tier, only=("line_search",))
    if tier == "quick":
        fjobs = fjobs[1:2]
    for ex in driver.explore_many(fjobs, time_limit=1500 if tier == "quick" else 9000, timeout_ms=120000, max_paths=4000):
        ex.candidates = [c for c in ex.candidates if "trial" in c["name"]]
        chk.add(ex)
        if ex.candidates:
            C02.confirm(chk, ex, rename={"C02.line_search_trial_points_in_box": "C11.trial_points_in_box_bit_precise"})
    # translator validation: the path outcome classes of T=1 runs replayed on the real line_search
    cases, expect = [], []
    for ex in exs:
        if ex.params["T"] != 1 or ex.params["n"] != 1:
            continue
        for w in ex.witnesses[:12]:
            if w.get("n_eq"):
                continue
            c = H.real_case(ex.params, w["witness"])
            c["functions"] = c["functions"][:1]
            if len(c["functions"][0]["nodes"]) < 2:
                continue
            cases.append(c)
            expect.append(w["summary"].get("cls"))
    for c, e, r in zip(cases, expect, realrun(cases)):
        if "error" in r:
            chk.validation_mismatch.append(dict(case=c, real=r))
            continue
        run = r["runs"][0]
        got = ("None/%d" % run["evaluations"]) if run["step"] is None else ("step/%d" % run["evaluations"])
        if run.get("exception"):
            got = "exception"
        if got == e or (e or "").startswith("unevaluated"):
            chk.validated += 1
        else:
            chk.validation_mismatch.append(dict(case=c, real=run, symbolic=e))
    chk.sample(dict(inputs="x0, d, l, u, f0, g0 symbolic with l <= x0, x0+d <= u, g0.d < 0; objective/gradient on the ray uninterpreted (fresh value per trial, Ackermann-consistent)",
                    obligations=["evaluations_within_budget", "trial_points_in_box", "step_positive_and_feasible", "returned_step_was_evaluated", "strictly_downhill", "no_exception"]))
    chk.functions = W.functions_encoded(H.FUNCS) + [dict(file=W.sp.optimize._dcsrch.__dict__.get("__file__", "scipy/optimize/_dcsrch.py"), qualname="scipy.optimize._dcsrch.DCSRCH._iterate", sha1_of_file=None)]
    chk.bounds = dict(T=Ts, n="1 (2 for the step bound)", iteration_index=[0, 1], bounds="finite / infinite / one-sided", tolerances="defaults; symbolic 0<=ftol<gtol<1 for T=1,2")
    chk.outside = ["more than %d trials per line search (the property says 1..20)" % max(Ts), "float64 rounding in mode R; the bit-precise part covers the trial points for n = 1, T = 1 (thorough 2)"]
    chk.stubs = ["DCSRCH tail (dcstep + interval update) cut: interval state havocked, next trial any value in [stpmin, stpmax] (sound over-approximation of the trial sequence)" + ("; thorough also runs the uncut real dcstep for T=2" if tier != "quick" else "")]
    chk.assumptions = ["feasible start and x0+d feasible (what the subspace step guarantees, C09)", "descent direction g0.d < 0", "objective values finite"]
    return chk.finish()
