"""C04 check (single-run orchestration harness, obligation group C04)."""
from . import orch_common


def main(tier, seed):
    # restart from a result whose run had ended abnormally (success False), with targets that may already be met
    extra = [dict(maxiter=3, maxfun=6, maxls=2, ftol="sym", ftarget_kind="float", checkpoint=1, ck_nit=2, ck_nfev=3, ck_pairs=1, ck_abnormal=1, ls_mode="contract", ls_tmax=2, groups=["C04"]),
             dict(maxiter=1, maxfun=6, maxls=2, ftol="sym", ftarget_kind="callable", checkpoint=1, ck_nit=2, ck_nfev=3, ck_pairs=0, ck_abnormal=1, ls_mode="contract", ls_tmax=2, groups=["C04"])]
    chk = orch_common.run("C04", tier, seed, extra_jobs=extra, technique="DSE of the real main.py/scalar_function.py/bfgsmats.py with contract stubs for the kernels and uninterpreted user callables; z3 per path; scenario replay on the real API")
    # The evaluation bound nfev <= max(maxfun, n0) + 1 rests on one premise about the line search, which the run-level
    # harness stubs: called with max_iter = min(maxls, maxfun - nfev) it makes at most max_iter evaluations.  That premise
    # is decided here on the real line_search (the C11 harness, budget obligation only).
    from symx import driver
    from . import c11 as C11
    T11 = "harness.c11:path"
    jobs = [(T11, dict(n=1, T=t, iter=it, pattern=pat, cut=True)) for t in (1, 2) for it in (0, 1) for pat in (("ff",), ("fi",))]
    for ex in driver.explore_many(jobs, time_limit=600, timeout_ms=30000, max_paths=60000):
        ex.candidates = [c for c in ex.candidates if c["name"] == "evaluations_within_budget"]
        chk.add(ex)
        if ex.candidates:
            C11.confirm(chk, ex)
    chk.stubs.append("line_search: its evaluation budget (at most max_iter evaluations) is not assumed but decided in this check on the real line_search (C11 harness, T <= 2)")
    chk.sample(dict(config=dict(maxiter="0..1", maxfun="1..3", maxls="1..2", ftol="symbolic >= 0", gtol="symbolic >= 0", ftarget="none|float|callable", callback="returns a symbolic Boolean"),
                    obligations="C04.* (see harness/orch_single.py)"))
    return chk.finish()
