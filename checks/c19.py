"""C19 check: each packaged benchmark gradient is the gradient of its benchmark function."""
from __future__ import annotations

from symx import driver
from symx.report import Check, realrun
from harness import c19 as H, common


def confirm(chk, ex):
    by = {}
    for c in ex.candidates:
        by.setdefault(c["name"], []).append(c)
    for name, cands in by.items():
        if name == "gradient_is_derivative_of_the_term" and "gradient_differs_with_margin" in by:
            continue     # the robust variant carries the witness
        cands = cands[:4]
        cases = [H.real_case(ex.params, c["model"]) for c in cands]
        res = realrun(cases)
        hit = False
        for c, case, r in zip(cands, cases, res):
            bad = None
            if "error" in r:
                bad = "raises " + r["error"]
            else:
                for pt in r["points"]:
                    if not pt["scalar"] or not pt["shape_ok"]:
                        bad = "at x=%s the function is not scalar or the gradient has the wrong shape" % (pt["x"],)
                        break
                    if name in ("gradient_differs_with_margin", "gradient_is_derivative_of_the_term", "finite_on_domain") and (pt["err"] is None or not (pt["err"] < 1e-5)):
                        bad = "at x=%s %s_grad=%s but a 10th-order Richardson derivative of %s gives %s" % (pt["x"], case["name"], pt["grad"], case["name"], pt["numeric"])
                        break
            if bad:
                hit = True
                chk.violation("C19:%s:%s" % (case["name"], "gradient"), bad, dict(case=case, real=r))
                break
        if not hit:
            chk.unconfirm(dict(obligation=name, params=ex.params, model=cands[0]["model"], real=res[0] if res else None))


def main(tier, seed):
    chk = Check("C19", tier, seed, technique="symbolic execution of f and f_grad on a symbolic x; the term produced by f is differentiated (sum/product/quotient/chain rules, sin/cos/exp uninterpreted + Ackermann, sqrt as algebraic atom) and compared with f_grad as normal forms / by z3")
    nmax = 12
    jobs = []
    for name in H.NAMES:
        for n in range(2 if name in H.CHAINED else 1, nmax + 1):
            jobs.append(("harness.c19:path", dict(name=name, n=n)))
    exs = driver.explore_many(jobs, time_limit=900 if tier == "quick" else 3600, timeout_ms=30000)
    W = common.world()
    cases = []
    for ex in exs:
        chk.add(ex)
        if ex.candidates:
            confirm(chk, ex)
        # translator validation here = the real pair evaluated at the path witness agrees with a numeric derivative
        if ex.witnesses and not ex.candidates:
            cases.append(H.real_case(ex.params, ex.witnesses[-1]["witness"]))
    res = realrun(cases)
    for c, r in zip(cases, res):
        if "error" in r:
            chk.validation_mismatch.append(dict(case=c, real=r))
            continue
        ok = all(p["err"] is not None and p["err"] < 1e-5 for p in r["points"][1:])
        if ok:
            chk.validated += 1
        else:
            chk.validation_mismatch.append(dict(case=c, real=r, note="symbolic identity holds but the real pair disagrees with the numeric derivative"))
    chk.sample(dict(obligation="f_grad(x)[i] != d/dx_i T(x) for some i, T = term returned by the real f on symbolic x", example=dict(name="rosenbrock", n=3)))
    chk.functions = W.functions_encoded(H.FUNCS)
    chk.bounds = dict(n="1..%d (2.. for beale, rosenbrock)" % nmax, domain="[-5,5]^n; Ackley: sum x^2 >= 1/100; Griewank: cos(x_i/sqrt(i)) != 0")
    chk.outside = ["dimensions above the bound", "points outside [-5,5]^n", "float64 rounding of the closed forms"]
    chk.assumptions = ["sin, cos, exp are uninterpreted (only functional consistency + derivative rules): unsat holds for every interpretation, hence the real one",
                       "pi is a symbol with 3.14159 < pi < 3.1416", "constants read as the decimals written in the source (0.2 = 1/5)"]
    return chk.finish()
