"""C18 check: pair provenance in the orchestration runs + extract_hess_inv_diag == diag(todense())."""
from __future__ import annotations

from symx import driver
from symx.report import realrun
from harness import c18 as H, common
from . import orch_common


def agree(summary, real):
    if "error" in real:
        return False
    out = summary.get("out") if isinstance(summary, dict) else None
    if out is None:
        return None
    return all(abs(a - b) <= 1e-7 * (1 + abs(b)) for a, b in zip(out, real["diag"]))


def main(tier, seed):
    # a user gradient that fills and returns one work array: the stored history must not alias it
    extra = [dict(maxiter=3, maxfun=8, maxls=1, ftol="sym", ls_mode="lean", maxcor=2, jac_buffer=1, groups=["C18"]),
             dict(maxiter=2, maxfun=6, maxls=2, ftol="sym", ls_mode="contract", ls_tmax=2, maxcor=2, jac_buffer=1, callback_kind="choose", groups=["C18"])]
    chk = orch_common.run("C18", tier, seed, extra_jobs=extra, technique="(i) DSE of the real main.py with stubs: existence of a chronological chain of visited iterates reproducing sk/yk, decided by z3; (ii) real extract_hess_inv_diag on SciPy's LbfgsInvHessProduct source with symbolic pairs, identities decided on normal forms")
    T = "harness.c18:path"
    jobs = [(T, dict(n=1, m=1)), (T, dict(n=2, m=1)), (T, dict(n=2, m=2)), (T, dict(n=3, m=1)), (T, dict(n=3, m=2, nsym=1, seed=seed)),
            (T, dict(n=3, m=3, nsym=1, seed=seed))]
    if tier != "quick":
        jobs += [(T, dict(n=3, m=2)), (T, dict(n=4, m=2, nsym=1, seed=seed)), (T, dict(n=2, m=3, nsym=2, seed=seed)),
                 (T, dict(n=4, m=4, nsym=1, seed=seed)), (T, dict(n=5, m=3, nsym=1, seed=seed))]
    # results of runs that redefine the objective on the fly also carry hess_inv: positive curvature of its pairs
    RW = "harness.orch_rel:c13_rewrite"
    jobs.append((RW, dict(K=3, ls_mode="unit", at=3, maxcor=3)))
    jobs.append((RW, dict(K=3, ls_mode="unit", at=2, maxcor=2)))
    exs = driver.explore_many(jobs, time_limit=900 if tier == "quick" else 3600, timeout_ms=60000)
    for ex in exs:
        if ex.target == RW:
            # (pair provenance after a redefinition is C18's own statement too)
            ex.candidates = [c for c in ex.candidates if c["name"].startswith("C18.") or c["name"] == "C13.pairs_are_differences_of_rewritten_gradients"]
            chk.add(ex)
            if ex.candidates:
                from . import rel_common
                rel_common.confirm(chk, ex, "scenario_update", lambda p, m: dict(K=3, at=p.get("at", 3), maxcor=p.get("maxcor", 3)))
            continue
        chk.add(ex)
        for name in sorted({c["name"] for c in ex.candidates}):
            cands = [c for c in ex.candidates if c["name"] == name][:4]
            cases = [H.real_case(ex.params, c["model"]) for c in cands]
            hit = False
            for case, r in zip(cases, realrun(cases)):
                if "error" in r:
                    bad = "raises " + r["error"]
                elif not r["shape_ok"]:
                    bad = "result has the wrong shape"
                elif any(abs(a - b) > 1e-9 * (1 + abs(b)) for a, b in zip(r["diag"], r["dense_diag"])):
                    bad = "extract_hess_inv_diag=%s but diag(todense())=%s" % (r["diag"], r["dense_diag"])
                else:
                    bad = None
                if bad:
                    hit = True
                    chk.violation("C18:%s" % name, "pairs sk=%s yk=%s: %s" % (case["S"], case["Y"], bad), dict(case=case, real=r))
                    break
            if not hit:
                chk.unconfirm(dict(obligation=name, params=ex.params, model=cands[0]["model"]))
        chk.validate(ex, H.real_case, agree, k=6)
    W = common.world()
    chk.functions += W.functions_encoded(H.FUNCS) + [dict(file="scipy/optimize/_lbfgsb_py.py", qualname="LbfgsInvHessProduct._matvec/_matmat/todense", sha1_of_file=None)]
    chk.bounds["diag_utility"] = "fully symbolic pairs (n,m) in {(1,1),(2,1),(2,2),(3,1)}; (3,2),(3,3) (thorough to (5,3),(4,4)) with older pairs concrete and the newest symbolic"
    chk.outside.append("n up to 30 / m up to 12 of the property text for the diagonal utility")
    chk.sample(dict(provenance="NOT exists i_0<...<i_m among the visited iterates with sk[j]=X[i_{j+1}]-X[i_j] and yk[j]=(g(X[i_{j+1}])-g(X[i_j]))*scale must be unsat",
                    diag="extract_hess_inv_diag(H)[i] != H.todense()[i,i] must be unsat (equal normal forms)"))
    return chk.finish()
