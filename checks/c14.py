"""C14 check: runs are deterministic, isolated from each other and do not touch their inputs."""
from __future__ import annotations

from symx import driver
from symx.report import Check
from . import rel_common

T = "harness.orch_rel:c14"


def case_of(params, model):
    return dict(K=max(params.get("K", 3), 3), k=params.get("k", 2), maxcor=params.get("maxcor", 2), rewrite=params.get("rewrite_at") is not None, unbounded=bool(params.get("pattern")))


def main(tier, seed):
    chk = Check("C14", tier, seed, technique="relational DSE in ONE module namespace: repeated / interleaved (another problem between) / nested (another complete run inside an objective call at a symbolic index) / read-only inputs / two restarts from one checkpoint object / logging on-off, real main.py+base.py display code with functional stubs; z3 decides equality of terms")
    jobs = [(T, dict(K=1, ls_mode="unit", mode="repeat")), (T, dict(K=1, ls_mode="unit", mode="nested")), (T, dict(K=2, ls_mode="unit", mode="inputs")),
            (T, dict(K=2, k=1, ls_mode="unit", mode="checkpoint", readonly=1)), (T, dict(K=2, k=1, ls_mode="unit", mode="checkpoint", scaler=1, readonly=1))]
    # the real kernels of two problems interleaved in one namespace (module-level state would show here)
    for pat in (("ff", "ff"), ("ff", "fi")):
        jobs.append(("harness.orch_rel:c14_kernels", dict(n=2, pattern=pat)))
    # finite-difference gradient modes go through other code of the wrapper (its option dictionaries)
    jobs.append((T, dict(K=1, ls_mode="unit", mode="repeat", jac="2-point")))
    for ipr in (0, 1, 99, 101):
        jobs.append((T, dict(K=2, ls_mode="unit", mode="logging", iprint=ipr)))
    # inputs untouched / read-only inputs accepted also without finite bounds (the projection is the identity there)
    jobs.append((T, dict(K=2, ls_mode="unit", mode="inputs", pattern=("ii",))))
    jobs.append((T, dict(K=2, ls_mode="unit", mode="inputs", pattern=("fi",))))
    # logging on/off while update_fun_def rewrites the stored gradients (the history filter logs what it drops)
    jobs.append((T, dict(K=3, ls_mode="unit", mode="logging", iprint=0, rewrite_at=2, maxcor=2)))
    if tier != "quick":
        jobs.append((T, dict(K=3, ls_mode="unit", mode="logging", iprint=101, rewrite_at=1, maxcor=2)))
        jobs += [(T, dict(K=2, ls_mode="unit", mode="repeat")), (T, dict(K=2, ls_mode="unit", mode="nested")), (T, dict(K=3, k=2, ls_mode="unit", mode="checkpoint", scaler=1, maxcor=2)),
                 (T, dict(K=3, ls_mode="unit", mode="inputs"))]
        for ipr in (-1, 50, 100):
            jobs.append((T, dict(K=2, ls_mode="unit", mode="logging", iprint=ipr)))
    exs = driver.explore_many(jobs, time_limit=1500 if tier == "quick" else 7200, timeout_ms=30000, max_paths=60000)
    for ex in exs:
        chk.add(ex)
        if ex.candidates:
            rel_common.confirm(chk, ex, "scenario_isolation", case_of)
    rel_common.finish_common(chk, exs[:1], "scenario_isolation", case_of, tier)
    chk.bounds = dict(K="1..2 (thorough 3)", nested="one nested run at any objective-call index", iprint="0, 1, 99, 101 (thorough also -1, 50, 100)", n=1)
    chk.outside += ["pre-emptive OS-thread interleavings inside a NumPy call (no Python-level state of the package is live there); interleaving is modelled at objective-call granularity (nested/alternating runs)",
                    "display code of the stubbed kernels (cauchy/subspace display helpers)"]
    chk.sample(dict(obligations=["C14.same_arguments_same_result", "C14.nested_run_does_not_disturb", "C14.read_only_inputs_accepted", "C14.inputs_untouched", "C14.checkpoint_untouched",
                                 "C14.restart_twice_same_result", "C14.logging_has_no_numerical_influence", "C14.logging_same_evaluations", "C14.no_module_level_state_changed"]))
    return chk.finish()
