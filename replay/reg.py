"""Registry of concrete-case runners (see realrun.py)."""
KINDS = {}


def register(name):
    def deco(f):
        KINDS[name] = f
        return f
    return deco
