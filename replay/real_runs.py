"""Whole-run concrete scenarios on the real public API, with an audit of the run-level properties
(C02-C07, C13, C14, C17, C18, C20) evaluated on the real results.  Used to confirm orchestration
counterexamples: the symbolic harness fixes a *scenario* (configuration, restart/split indices, which
callable misbehaves); it is replayed here on a small battery of concrete problems."""
import copy
import math

import numpy as np

from reg import register

MSG = {
    "PGTOL": "CONVERGENCE: NORM_OF_PROJECTED_GRADIENT_<=_PGTOL",
    "FTOL": "CONVERGENCE: REL_REDUCTION_OF_F_<=_FTOL",
    "TARGET": "CONVERGENCE: F_<=_TARGET",
    "ITER": "STOP: TOTAL NO. of ITERATIONS REACHED LIMIT",
    "EVAL": "STOP: TOTAL NO. of f AND g EVALUATIONS EXCEEDS LIMIT",
    "CALLBACK": "STOP: USER CALLBACK",
    "ABNORMAL": "ABNORMAL_TERMINATION_IN_LNSRCH",
}


# ---------------------------------------------------------------------------
# battery


def problems():
    import lbfgsb
    out = {}
    A = np.array([[4.0, 1.0], [1.0, 3.0]])
    b = np.array([1.0, -2.0])
    out["qp2"] = dict(f=lambda x: 0.5 * x.dot(A @ x) - b.dot(x), g=lambda x: A @ x - b,
                      x0=np.array([1.5, 1.0]), bounds=np.array([[-1.0, 2.0], [-0.25, 2.0]]))
    A3 = np.array([[6.0, 2.0, 1.0], [2.0, 5.0, 2.0], [1.0, 2.0, 4.0]])
    b3 = np.array([1.0, 3.0, -4.0])
    out["qp3"] = dict(f=lambda x: 0.5 * x.dot(A3 @ x) - b3.dot(x), g=lambda x: A3 @ x - b3,
                      x0=np.array([2.0, -1.0, 1.0]), bounds=np.array([[-1.0, 3.0], [-2.0, 0.5], [-0.5, 3.0]]))
    out["rosen2"] = dict(f=lbfgsb.rosenbrock, g=lbfgsb.rosenbrock_grad, x0=np.array([-1.2, 1.0]),
                         bounds=np.array([[-2.0, 2.0], [-1.0, 2.0]]))
    out["styb3"] = dict(f=lbfgsb.styblinski_tang, g=lbfgsb.styblinski_tang_grad, x0=np.array([0.5, -0.5, 1.0]),
                        bounds=np.array([[-4.0, 4.0], [-4.0, 0.0], [-1.0, 4.0]]))
    out["quartic4"] = dict(f=lbfgsb.quartic, g=lbfgsb.quartic_grad, x0=np.array([1.0, -1.5, 0.7, 2.0]),
                           bounds=np.array([[-2.0, 2.0], [-2.0, 2.0], [0.5, 2.0], [-2.0, 2.5]]))
    # a box with a degenerate side (lb == ub): that component must never move, nor be stepped over by a stencil
    out["qp3fix"] = dict(f=out["qp3"]["f"], g=out["qp3"]["g"], x0=np.array([2.0, -1.0, 1.0]), bounds=np.array([[-1.0, 3.0], [-1.0, -1.0], [-0.5, 3.0]]))
    # a saddle inside a box: curvature pairs get rejected (s.y <= 0) in mid-run
    Dg = np.array([1.0, 2.0, -1.5])
    cs = np.array([0.3, -0.4, 0.2])
    out["saddle3"] = dict(f=lambda x: float(0.5 * (Dg * x).dot(x) + cs.dot(x) + 0.05 * np.sum(x ** 4)), g=lambda x: Dg * x + cs + 0.2 * x ** 3,
                          x0=np.array([1.0, 0.5, 0.1]), bounds=np.array([[-1.0, 3.0], [-2.0, 2.0], [-1.0, 1.0]]))
    # non-convex slices: the lowest line-search trial is not the last one evaluated
    out["sinquad1"] = dict(f=lambda x: float(0.1 * x[0] ** 2 + np.sin(2.366 * x[0] + 1.719)), g=lambda x: np.array([0.2 * x[0] + 2.366 * np.cos(2.366 * x[0] + 1.719)]),
                           x0=np.array([2.683]), bounds=np.array([[-10.0, 10.0]]))
    out["sinquad2"] = dict(f=lambda x: float(0.1 * x.dot(x) + np.sin(2.366 * x[0] + 1.719) + np.cos(3.1 * x[1] - 0.4)),
                           g=lambda x: 0.2 * x + np.array([2.366 * np.cos(2.366 * x[0] + 1.719), -3.1 * np.sin(3.1 * x[1] - 0.4)]),
                           x0=np.array([2.683, -1.3]), bounds=np.array([[-10.0, 10.0], [-4.0, 6.0]]))
    # objectives on which short line searches (small maxls) fail in mid-run
    out["expdrop1"] = dict(f=lambda x: float(np.sum(x + np.exp(-10.0 * x))), g=lambda x: 1.0 - 10.0 * np.exp(-10.0 * x),
                           x0=np.array([-0.5]), bounds=np.array([[-2.0, 2.0]]))
    out["expdrop2"] = dict(f=lambda x: float(np.sum(x + np.exp(-10.0 * x))), g=lambda x: 1.0 - 10.0 * np.exp(-10.0 * x),
                           x0=np.array([-0.5, -0.3]), bounds=np.array([[-2.0, 2.0], [-1.0, 3.0]]))
    # bounds that single precision cannot represent, reached by the iterates (the minimiser is outside the box)
    out["tenth3"] = dict(f=lambda x: float(0.5 * np.sum((x - np.array([1.0, 2.0, -3.0])) ** 2)), g=lambda x: x - np.array([1.0, 2.0, -3.0]),
                         x0=np.zeros(3), bounds=np.array([[-0.7, 0.1], [-0.7, 0.3], [-0.7, 0.1]]))
    # a steep wall whose minimiser sits 5e-6 inside a bound: iterates land very close to the bound without being on it
    out["wall2"] = dict(f=lambda x: float(1e12 * (x[0] - (1.0 + 5e-6)) ** 2 + (x[1] - 0.5) ** 2),
                        g=lambda x: np.array([2e12 * (x[0] - (1.0 + 5e-6)), 2.0 * (x[1] - 0.5)]),
                        x0=np.array([1.0 + 8e-6, 1.5]), bounds=np.array([[1.0, 2.0], [0.0, 2.0]]))
    return out


class Logged:
    """User callables that log every call."""

    def __init__(self, p, scale_obj=1.0):
        self.p = p
        self.fcalls = []
        self.gcalls = []
        self.k = scale_obj
        self.fault = None      # (kind, index, exception)

    def fun(self, x, *a):
        if self.fault and self.fault[0] == "fun" and len(self.fcalls) == self.fault[1]:
            raise self.fault[2]
        v = self.k * float(self.p["f"](x))
        self.fcalls.append((np.array(x, dtype=float).copy(), v))
        self._scribble(x)
        return v

    def _scribble(self, x):
        # a user callable that uses its argument as scratch space (it is documented to receive a copy)
        if getattr(self, "mutate", False) and isinstance(x, np.ndarray) and x.flags.writeable and not np.iscomplexobj(x):
            x[...] = -4096.0

    def jac(self, x, *a):
        if self.fault and self.fault[0] == "jac" and len(self.gcalls) == self.fault[1]:
            raise self.fault[2]
        v = self.k * np.asarray(self.p["g"](x), dtype=float)
        self.gcalls.append((np.array(x, dtype=float).copy(), v.copy()))
        self._scribble(x)
        if getattr(self, "buffer", False):
            # one preallocated work array, filled and returned at every call
            if getattr(self, "_gbuf", None) is None:
                self._gbuf = v.copy()
            else:
                self._gbuf[:] = v
            return self._gbuf
        return v


def snap(res):
    return dict(x=np.array(res.x, dtype=float).copy(), fun=float(res.fun), jac=np.array(res.jac, dtype=float).copy(),
                nfev=int(res.nfev), njev=int(res.njev), nit=int(res.nit), message=res.message, success=bool(res.success),
                status=res.status, sk=np.array(res.hess_inv.sk, dtype=float).copy(), yk=np.array(res.hess_inv.yk, dtype=float).copy())


def projgr(x, g, lb, ub):
    return float(np.max(np.abs(np.clip(x - g, lb, ub) - x)))


def run_once(p, cfg, L=None, checkpoint=None, x0=None, callback_kind=None, extra=None):
    """One real minimize_lbfgsb call.  Returns a record dict."""
    from lbfgsb import minimize_lbfgsb
    L = L or Logged(p)
    n0f, n0g = len(L.fcalls), len(L.gcalls)
    states = []
    kw = dict(cfg)
    cbk = callback_kind

    def cb(xk, state):
        states.append(dict(xk=np.array(xk).copy(), live=state, snap=snap(state)))
        if cbk == "false" or cbk is None:
            return False
        if cbk == "true":
            return True
        if isinstance(cbk, (list, tuple)) and cbk[0] == "true_at":
            return len(states) - 1 == cbk[1]
        return False
    if cbk is not None:
        kw["callback"] = cb
    counters = dict(ftarget=0, gtol=0)
    if kw.get("ftarget_callable") is not None:
        vft = kw.pop("ftarget_callable")

        def ft(_v=vft):
            counters["ftarget"] += 1
            return _v
        kw["ftarget"] = ft
    if kw.get("gtol_callable") is not None:
        vgt = kw.pop("gtol_callable")

        def gt(_v=vgt):
            counters["gtol"] += 1
            return _v
        kw["gtol"] = gt
    if extra:
        kw.update(extra)
    # an array given by the caller is handed over as it is (the way a user would: aliasing, read-only flags and in-place
    # modifications by the package must stay observable); the battery's own start vector is copied
    x0 = x0 if isinstance(x0, np.ndarray) else np.array(p["x0"] if x0 is None else x0, dtype=float)
    rec = dict(L=L, states=states, counters=counters, cfg=cfg, checkpoint=checkpoint, exc=None, res=None)
    keep_errstate = kw.pop("_keep_errstate", False)
    # gradient computations by finite differences are counted where the package calls SciPy's routine (a wrapper put
    # into the module's namespace for the duration of this call; nothing in the package is edited)
    import lbfgsb.scalar_function as _sfm
    _orig_ad = _sfm.approx_derivative
    fd_count = [0]

    def _counting_ad(*a, **k):
        fd_count[0] += 1
        return _orig_ad(*a, **k)
    _sfm.approx_derivative = _counting_ad
    try:
        if keep_errstate:
            # (fault scenarios: a leaked numpy error state must stay observable)
            res = minimize_lbfgsb(x0=x0, fun=L.fun, jac=kw.pop("jac", L.jac), bounds=p["bounds"], checkpoint=checkpoint, **kw)
        else:
            with np.errstate(all="ignore"):
                res = minimize_lbfgsb(x0=x0, fun=L.fun, jac=kw.pop("jac", L.jac), bounds=p["bounds"], checkpoint=checkpoint, **kw)
        rec["res"] = res
        rec["snap"] = snap(res)
    except Exception as e:  # noqa
        rec["exc"] = e
    finally:
        _sfm.approx_derivative = _orig_ad
    rec["fd_grads"] = fd_count[0]
    rec["fcalls"] = L.fcalls[n0f:]
    rec["gcalls"] = L.gcalls[n0g:]
    return rec


def audit(rec, p, maxiter, maxfun, gtol, ftarget=None, scale=1.0, ck=None, ftarget_callable=False, gtol_callable=False,
          callable_grad=True, maxcor=10, history=None):
    """Evaluate the run-level obligations on a real run record.  Returns {obligation: description} of violations."""
    bad = {}
    if rec["exc"] is not None:
        bad["no_exception"] = "raised %s: %s" % (type(rec["exc"]).__name__, rec["exc"])
        return bad
    s = rec["snap"]
    lb, ub = p["bounds"][:, 0], p["bounds"][:, 1]
    key = next((k for k, v in MSG.items() if v == s["message"]), None)
    nit0 = ck["nit"] if ck else 0
    n0 = ck["nfev"] if ck else 1
    njev0 = ck["njev"] if ck else 0
    nfev_base = ck["nfev"] if ck else 0
    early_ck = ck is not None and rec["res"] is rec["checkpoint"]
    # ---- C04
    if key is None:
        bad["C04.message_documented"] = "message %r is not a documented termination reason (success=%s)" % (s["message"], s["success"])
    if key == "PGTOL" and projgr(s["x"], s["jac"], lb, ub) > gtol:
        bad["C04.pgtol_message_true"] = "projected gradient %g > gtol %g" % (projgr(s["x"], s["jac"], lb, ub), gtol)
    if key == "TARGET" and (ftarget is None or s["fun"] / scale > ftarget):
        bad["C04.target_message_true"] = "fun %r > ftarget %r" % (s["fun"] / scale, ftarget)
    if key == "ITER" and s["nit"] < maxiter:
        bad["C04.iter_message_true"] = "nit %d < maxiter %d" % (s["nit"], maxiter)
    if key == "EVAL" and s["nfev"] < maxfun:
        bad["C04.eval_message_true"] = "nfev %d < maxfun %d" % (s["nfev"], maxfun)
    if key is not None and (not s["success"]) != (key == "ABNORMAL"):
        bad["C04.success_false_iff_abnormal"] = "success=%s with message %r" % (s["success"], s["message"])
    if s["nit"] > max(maxiter, nit0):
        bad["C04.nit_within_budget"] = "nit %d > max(maxiter %d, nit at restart %d)" % (s["nit"], maxiter, nit0)
    if callable_grad and s["nfev"] > max(maxfun, n0) + 1:
        bad["C04.nfev_within_budget"] = "nfev %d > max(maxfun %d, n0 %d) + 1" % (s["nfev"], maxfun, n0)
    if ftarget_callable and rec["counters"]["ftarget"] != 1:
        bad["C04.ftarget_called_once"] = "callable ftarget invoked %d times" % rec["counters"]["ftarget"]
    if gtol_callable and rec["counters"]["gtol"] != 1:
        bad["C04.gtol_called_once"] = "callable gtol invoked %d times" % rec["counters"]["gtol"]
    # ---- C05
    L = rec["L"]
    any_grad = len(rec["gcalls"]) > 0 or ck is not None

    def fval(x):
        for (q, v) in reversed(L.fcalls):
            if np.array_equal(q, x):
                return v
        return None

    def gval(x):
        for (q, v) in reversed(L.gcalls):
            if np.array_equal(q, x):
                return v
        return None
    if any_grad and not early_ck:
        fv = fval(s["x"])
        if fv is None or fv * scale != s["fun"]:
            bad["C05.fun_belongs_to_x"] = "result.fun=%r but the objective at result.x gives %r (x %s evaluated)" % (s["fun"], None if fv is None else fv * scale, "was" if fv is not None else "never")
        if callable_grad:
            gv = gval(s["x"])
            if gv is None or not np.array_equal(gv * scale, s["jac"]):
                bad["C05.jac_belongs_to_x"] = "result.jac=%s but the gradient at result.x gives %s" % (s["jac"].tolist(), None if gv is None else (gv * scale).tolist())
    for k, st in enumerate(rec["states"]):
        sx = st["snap"]
        fv = fval(sx["x"])
        if fv is None or fv * scale != sx["fun"]:
            bad.setdefault("C05.callback_fun_belongs_to_x", "callback %d: state.fun=%r, objective at state.x=%r" % (k, sx["fun"], fv))
        if callable_grad:
            gv = gval(sx["x"])
            if gv is None or not np.array_equal(gv * scale, sx["jac"]):
                bad.setdefault("C05.callback_jac_belongs_to_x", "callback %d: state.jac is not the gradient at state.x" % k)
    if s["nfev"] != nfev_base + len(rec["fcalls"]) and not early_ck:
        bad["C05.nfev_equals_calls"] = "nfev=%d but %d (+%d at restart) objective calls were made" % (s["nfev"], len(rec["fcalls"]), nfev_base)
    if callable_grad and s["njev"] != njev0 + len(rec["gcalls"]) and not early_ck:
        bad["C05.njev_equals_calls"] = "njev=%d but %d (+%d at restart) gradient calls were made" % (s["njev"], len(rec["gcalls"]), njev0)
    if not callable_grad and not early_ck and s["njev"] != njev0 + rec.get("fd_grads", 0):
        bad["C05.njev_equals_calls"] = "njev=%d but %d (+%d at restart) finite-difference gradients were computed" % (s["njev"], rec.get("fd_grads", 0), njev0)
    # ---- C03
    seq = []
    if ck is None and rec["fcalls"]:
        seq.append(rec["fcalls"][0][1])
    elif ck is not None:
        seq.append(ck["fun"] / scale)
    for st in rec["states"]:
        v = fval(st["snap"]["x"])
        if v is not None:
            seq.append(v)
    v = fval(s["x"])
    if v is not None:
        seq.append(v)
    for a, b in zip(seq, seq[1:]):
        if b > a:
            bad["C03.objective_never_increases"] = "objective sequence %s increases" % (seq,)
            break
    rep = ([seq[0]] if seq else []) + [st["snap"]["fun"] / scale for st in rec["states"]] + [s["fun"] / scale]
    for a, b in zip(rep, rep[1:]):
        if b > a:
            bad["C03.reported_fun_never_increases"] = "reported objective values %s increase" % (rep,)
            break
    # ---- C02 (exact float comparisons)
    pts = [q for q, _ in rec["fcalls"]] + [q for q, _ in rec["gcalls"]]
    if any(np.any(q < lb) or np.any(q > ub) for q in pts):
        q = next(q for q in pts if np.any(q < lb) or np.any(q > ub))
        bad["C02.evaluation_points_in_box"] = "the objective/gradient was evaluated at %s, outside [%s, %s]" % (q.tolist(), lb.tolist(), ub.tolist())
    rep = [s["x"]] + [st["snap"]["x"] for st in rec["states"]] + [st["xk"] for st in rec["states"]]
    if any(np.any(q < lb) or np.any(q > ub) for q in rep):
        bad["C02.reported_points_in_box"] = "a reported/returned point lies outside the box"
    # ---- C18 provenance
    sk, yk = s["sk"], s["yk"]
    if sk.shape[0] > maxcor:
        bad["C18.at_most_maxcor_pairs"] = "%d pairs with maxcor=%d" % (sk.shape[0], maxcor)
    if sk.size and callable_grad:
        if np.any(np.einsum("ij,ij->i", sk, yk) <= 0):
            bad["C18.pairs_have_positive_curvature"] = "a pair has s.y <= 0"
        pts = list(history or [])
        for (q, gq) in L.gcalls:
            pts.append((q, gq * scale))
        ok = chain_ok(sk, yk, pts)
        if not ok:
            bad["C18.pairs_are_differences_of_visited_iterates"] = "sk/yk rows are not differences of consecutive retained visited points and of the gradients returned there (sk=%s)" % (sk.tolist(),)
    return bad


def chain_ok(sk, yk, pts, tol=1e-9):
    """exists chronological chain in pts [(x, g)] reproducing the rows of sk, yk (oldest first)."""
    m = sk.shape[0]

    def close(a, b):
        return np.allclose(a, b, rtol=tol, atol=tol * (1 + np.max(np.abs(b))))

    def rec(a, j):
        if j < 0:
            return True
        for k in range(a - 1, -1, -1):
            if close(pts[a][0] - pts[k][0], sk[j]) and close(pts[a][1] - pts[k][1], yk[j]) and rec(k, j - 1):
                return True
        return False
    return any(rec(a, m - 1) for a in range(len(pts) - 1, -1, -1))


def _cfg_from(c):
    cfg = dict(maxiter=c["maxiter"], maxfun=c["maxfun"], maxls=c.get("maxls", 20), maxcor=c.get("maxcor", 10),
               ftol=c.get("ftol", 0.0), gtol=c.get("gtol", 1e-8))
    return cfg


@register("scenario_single")
def scenario_single(c):
    """Replay a single-run scenario (optionally from a real checkpoint) on the battery and audit it."""
    out = []
    variants = [c]
    if c.get("sweep"):
        # budget scenarios: the symbolic trajectory (which line search fails when) cannot be forced on real
        # kernels, so the neighbouring budgets are replayed too, on objectives whose short line searches fail
        for mf in range(max(1, c["maxfun"] - 1), c["maxfun"] + 6):
            for ml in sorted({c.get("maxls", 2), 1, 2, 3}):
                for ckp in ((0, 1) if c.get("checkpoint") else (0,)):
                    v = dict(c, maxfun=mf, maxls=ml, maxiter=max(c["maxiter"], 6))
                    if not ckp:
                        v.pop("checkpoint", None)
                    if v != c:
                        variants.append(v)
    for v in variants:
        for name, p in problems().items():
            if v.get("sweep") and not name.startswith(("expdrop", "rosen", "sinquad")):
                continue
            _single_one(v, name, p, out)
    return dict(runs=out)


def _single_one(c, name, p, out):
    L = Logged(p)
    L.buffer = bool(c.get("jac_buffer"))
    L.mutate = bool(c.get("mutate_args"))
    ck = None
    ck_obj = None
    history = None
    if c.get("checkpoint"):
        # a checkpoint without pairs comes from an 'evaluate only' run (maxiter=0)
        first = run_once(p, dict(maxiter=0 if c.get("ck_pairs") == 0 else c["ck_nit"], maxfun=10 ** 6, maxcor=c.get("ck_maxcor", c.get("maxcor", 10)), ftol=0.0, gtol=0.0), L=L,
                         extra=dict(jac=None if c["jac_mode"] == "none" else c["jac_mode"]) if c.get("jac_mode") else None)
        if first["exc"] is not None:
            out.append(dict(problem=name, error="first leg raised %r" % (first["exc"],)))
            return
        if c.get("ck_abnormal"):
            # a first leg that ends on an abnormal line-search termination (success False): short line searches
            first = None
            for ml in (1, 2):
                for mi in (50,):
                    cand = run_once(p, dict(maxiter=mi, maxfun=10 ** 6, maxls=ml, maxcor=c.get("maxcor", 10), ftol=0.0, gtol=0.0), L=L)
                    if cand["exc"] is None and cand["res"].message == MSG["ABNORMAL"]:
                        first = cand
                        break
                if first is not None:
                    break
            if first is None:
                return
        ck_obj = first["res"]
        ck = dict(nit=int(ck_obj.nit), nfev=int(ck_obj.nfev), njev=int(ck_obj.njev), fun=float(ck_obj.fun))
        history = [(q.copy(), g.copy()) for q, g in L.gcalls]
    f_start = ck["fun"] if ck else float(p["f"](np.clip(p["x0"], p["bounds"][:, 0], p["bounds"][:, 1])))
    fts = [None]
    if c.get("ftarget_kind", "none") != "none":
        fts = [f_start + 1.0, f_start - 1e-3 * (1 + abs(f_start)), -1e300]
    for ft in fts:
        cfg = _cfg_from(c)
        if ft is not None:
            if c.get("ftarget_kind") == "callable":
                cfg["ftarget_callable"] = ft
            else:
                cfg["ftarget"] = ft
        gtol = cfg["gtol"]
        if c.get("gtol_kind") == "callable":
            cfg["gtol_callable"] = cfg.pop("gtol")
        cbks = [c.get("callback_kind")] if c.get("callback_kind") not in ("choose",) else ["false", "true", ["true_at", 1]]
        for cbk in cbks:
            L2 = L if ck is not None else Logged(p)
            L2.buffer = bool(c.get("jac_buffer"))
            L2.mutate = bool(c.get("mutate_args"))
            jx = None
            if c.get("jac_mode"):
                jx = dict(jac=None if c["jac_mode"] == "none" else c["jac_mode"])
            ck_before = snap(ck_obj) if ck_obj is not None else None
            ck_rep = (ck_obj.message, bool(ck_obj.success), ck_obj.status) if ck_obj is not None else None
            x0_in = ck_obj.x if ck_obj is not None else None
            if c.get("x0_dtype") and ck_obj is None:
                # a start vector of another floating-point type (feasible: rounded into the box)
                x0_in = np.clip(np.asarray(p["x0"], float), p["bounds"][:, 0], p["bounds"][:, 1]).astype(c["x0_dtype"])
                x0_in = np.where(x0_in < p["bounds"][:, 0], np.nextafter(x0_in, np.array(np.inf, x0_in.dtype)), x0_in)
                x0_in = np.where(x0_in > p["bounds"][:, 1], np.nextafter(x0_in, np.array(-np.inf, x0_in.dtype)), x0_in).astype(c["x0_dtype"])
            rec = run_once(p, dict(cfg), L=L2, checkpoint=ck_obj,      # the object itself, the way a user restarts
                           x0=x0_in, callback_kind=cbk, extra=jx)
            bad = audit(rec, p, c["maxiter"], c["maxfun"], gtol, ftarget=ft, ck=ck, ftarget_callable=c.get("ftarget_kind") == "callable",
                        gtol_callable=c.get("gtol_kind") == "callable", maxcor=cfg["maxcor"], history=history, callable_grad=not c.get("jac_mode"))
            if ck_rep is not None and ck_rep != (ck_obj.message, bool(ck_obj.success), ck_obj.status):
                bad["C05.earlier_result_of_the_chain_untouched"] = "the restart rewrote the termination report of the result it was started from: %r -> %r" % (ck_rep, (ck_obj.message, bool(ck_obj.success), ck_obj.status))
            if ck_before is not None and _same_state(ck_before, snap(ck_obj), fields=("x", "fun", "jac", "nfev", "njev", "nit", "sk", "yk"), tol=0.0):
                # the user restarted with x0=result.x: the earlier result of the chain must still describe its own point
                bad["C05.earlier_result_of_the_chain_untouched"] = "the restart modified the result it was started from: %s" % ("; ".join(_same_state(ck_before, snap(ck_obj), fields=("x", "fun", "jac", "nfev", "njev", "nit", "sk", "yk"), tol=0.0))[:300])
            if cbk not in (None, "false") and rec["res"] is not None and rec["res"].message == MSG["CALLBACK"] and not rec["states"]:
                bad["C04.callback_message_true"] = "callback message without a callback call"
            out.append(dict(problem=name, ftarget=ft, callback=cbk, violated=bad,
                            config={k: c[k] for k in ("maxiter", "maxfun", "maxls") if k in c}, restart=bool(c.get("checkpoint")),
                            message=None if rec["res"] is None else rec["res"].message,
                            nit=None if rec["res"] is None else int(rec["res"].nit), nfev=None if rec["res"] is None else int(rec["res"].nfev)))


def _close(a, b, tol=1e-6):
    a, b = np.asarray(a, float), np.asarray(b, float)
    if a.shape != b.shape:
        return False
    return bool(np.allclose(a, b, rtol=tol, atol=tol * (1 + (np.max(np.abs(b)) if b.size else 0))))


def _same_state(s1, s2, fields=("x", "fun", "jac", "nit", "sk", "yk"), tol=1e-6):
    diffs = []
    for f in fields:
        a, b = s1[f], s2[f]
        if f in ("nit", "nfev", "njev", "message", "success"):
            if a != b:
                diffs.append("%s: %r vs %r" % (f, a, b))
        elif not _close(a, b, tol):
            diffs.append("%s: %s vs %s" % (f, np.asarray(a).tolist(), np.asarray(b).tolist()))
    return diffs


@register("scenario_restart")
def scenario_restart(c):
    """C06: uninterrupted run vs stop at k + restart (no-op restart, next iterate, full continuation, chain, reduced maxcor)."""
    out = []
    K, k = c["K"], c["k"]
    mc, mc2 = c.get("maxcor", 10), c.get("maxcor_restart", c.get("maxcor", 10))
    base = dict(maxfun=10 ** 6, maxls=c.get("maxls", 20), ftol=0.0, gtol=c.get("gtol", 1e-12))
    todo = [(name, p, base, K, k) for name, p in problems().items()]
    if c.get("ls_failures"):
        # runs in which line searches fail, succeed and fail again (maxls=1 on an oscillating objective): the reboot
        # logic between two failures must not depend on anything a checkpoint does not carry
        import lbfgsb as _l
        g4 = dict(f=_l.griewank, g=_l.griewank_grad, x0=np.array([1.74, 0.34, -1.67, 0.35]), bounds=np.array([[-np.inf, np.inf]] * 4))
        for kk in range(1, 8):
            todo.append(("griew4", g4, dict(base, maxls=1), 15, kk))
    for name, p, base, K, k in todo:
        bad = {}
        U = run_once(p, dict(base, maxiter=K, maxcor=mc))
        A = run_once(p, dict(base, maxiter=k, maxcor=mc))
        if U["exc"] or A["exc"]:
            out.append(dict(problem=name, error=str(U["exc"] or A["exc"])))
            continue
        if A["res"].message != MSG["ITER"]:
            out.append(dict(problem=name, skipped="first leg not stopped by maxiter (%s)" % A["res"].message))
            continue
        ck = A["res"]
        B0 = run_once(p, dict(base, maxiter=k, maxcor=mc2), checkpoint=copy.deepcopy(ck), x0=ck.x)
        if B0["exc"]:
            bad["no_exception"] = "no-op restart raised %r" % (B0["exc"],)
        else:
            m = min(A["snap"]["sk"].shape[0], mc2)
            if not (_close(B0["snap"]["sk"], A["snap"]["sk"][A["snap"]["sk"].shape[0] - m:], 1e-9) and _close(B0["snap"]["yk"], A["snap"]["yk"][A["snap"]["yk"].shape[0] - m:], 1e-9)):
                bad["C06.noop_restart_keeps_pairs"] = "restart with maxiter=%d returns sk=%s, the stopped run had sk=%s" % (k, B0["snap"]["sk"].tolist(), A["snap"]["sk"].tolist())
        U1 = run_once(p, dict(base, maxiter=k + 1, maxcor=mc))
        B1 = run_once(p, dict(base, maxiter=k + 1, maxcor=mc2), checkpoint=copy.deepcopy(ck), x0=ck.x)
        if B1["exc"] or U1["exc"]:
            bad["no_exception"] = "restart raised %r" % (B1["exc"] or U1["exc"],)
        elif mc2 == mc:
            d = _same_state(U1["snap"], B1["snap"], fields=("x", "fun", "jac", "nit"))
            if d:
                bad["C06.next_iterate_equals_uninterrupted"] = "iterate %d after a restart at %d differs from the uninterrupted run: %s" % (k + 1, k, "; ".join(d)[:400])
                bad["C06.next_iterate_state_equal"] = bad["C06.next_iterate_equals_uninterrupted"]
        else:
            d = _same_state(U1["snap"], B1["snap"], fields=("nit",))
            sku, skb = U1["snap"]["sk"], B1["snap"]["sk"]
        B = run_once(p, dict(base, maxiter=K, maxcor=mc2), checkpoint=copy.deepcopy(ck), x0=ck.x)
        if not B["exc"] and mc2 == mc and name.startswith("qp"):
            d = _same_state(U["snap"], B["snap"])
            if d:
                bad["C06.restarted_equals_uninterrupted"] = "after %d iterations the restarted run (split at %d) differs from the uninterrupted one: %s" % (K, k, "; ".join(d)[:400])
        if mc2 < mc and not B1["exc"] and not U1["exc"]:
            # the pairs carried into the next iteration are the most recent ones of the stopped run
            m = min(A["snap"]["sk"].shape[0], mc2)
            exp = A["snap"]["sk"][A["snap"]["sk"].shape[0] - m:]
            got = B0["snap"]["sk"] if not B0["exc"] else None
            if got is None or not _close(got, exp, 1e-9):
                bad["C06.reduced_memory_keeps_most_recent_pairs"] = "restart with maxcor=%d keeps sk=%s, most recent pairs are %s" % (mc2, None if got is None else got.tolist(), exp.tolist())
        k2 = c.get("k2")
        if k2 and mc2 == mc and name.startswith("qp"):
            Bm = run_once(p, dict(base, maxiter=k2, maxcor=mc), checkpoint=copy.deepcopy(ck), x0=ck.x)
            if not Bm["exc"] and Bm["res"].message == MSG["ITER"]:
                C = run_once(p, dict(base, maxiter=K, maxcor=mc), checkpoint=copy.deepcopy(Bm["res"]), x0=Bm["res"].x)
                if not C["exc"]:
                    d = _same_state(U["snap"], C["snap"])
                    if d:
                        bad["C06.chain_of_restarts_equals_uninterrupted"] = "chain %d -> %d -> %d differs from the uninterrupted run: %s" % (k, k2, K, "; ".join(d)[:400])
        out.append(dict(problem=name, violated=bad))
    return dict(runs=out)


@register("scenario_callback")
def scenario_callback(c):
    """C07: callback states as crash checkpoints."""
    out = []
    K = c["K"]
    mc = c.get("maxcor", 10)
    base = dict(maxfun=10 ** 6, maxls=c.get("maxls", 20), ftol=0.0, gtol=c.get("gtol", 1e-12), maxcor=mc)
    for name, p in problems().items():
        bad = {}
        N = run_once(p, dict(base, maxiter=K))
        C = run_once(p, dict(base, maxiter=K), callback_kind="false")
        if N["exc"] or C["exc"]:
            out.append(dict(problem=name, error=str(N["exc"] or C["exc"])))
            continue
        d = _same_state(N["snap"], C["snap"], fields=("x", "fun", "jac", "nfev", "njev", "nit", "sk", "yk", "message", "success"), tol=0.0)
        if d:
            bad["C07.callback_returning_false_does_not_alter_the_run"] = "; ".join(d)[:400]
        for idx, st in enumerate(C["states"], start=1):
            at_call, live = st["snap"], snap(st["live"])
            d = _same_state(at_call, live, fields=("x", "fun", "jac", "nfev", "njev", "nit", "sk", "yk"), tol=0.0)
            if d:
                bad.setdefault("C07.state_unchanged_after_callback_returns", "state of callback %d changed after the callback returned: %s" % (idx, "; ".join(d)[:300]))
            if not np.array_equal(st["xk"], at_call["x"]):
                bad.setdefault("C07.xk_argument_equals_state_x", "callback %d: xk != state.x" % idx)
            k = at_call["nit"]
            if not (idx <= k <= K):
                bad.setdefault("C07.state_nit_is_the_iteration_number", "callback %d reports nit=%d" % (idx, k))
                bad.setdefault("C07.state_equals_result_of_run_with_maxiter_k", "callback %d reports nit=%d" % (idx, k))
                continue
            M = run_once(p, dict(base, maxiter=k))
            if M["exc"]:
                continue
            d = _same_state(at_call, M["snap"], fields=("x", "fun", "jac", "nfev", "njev", "nit", "sk", "yk"), tol=0.0)
            if d:
                bad.setdefault("C07.state_equals_result_of_run_with_maxiter_k", "state after iteration %d vs result of maxiter=%d: %s" % (k, k, "; ".join(d)[:300]))
            if k < K:
                ckp = st["live"]
                R1 = run_once(p, dict(base, maxiter=k + 1), checkpoint=ckp, x0=np.array(ckp.x, dtype=float))
                M1 = run_once(p, dict(base, maxiter=k + 1))
                if R1["exc"]:
                    bad.setdefault("C07.restart_from_state_gives_the_next_iterate", "restart from the retained state raised %r" % (R1["exc"],))
                elif not M1["exc"]:
                    d = _same_state(M1["snap"], R1["snap"], fields=("x", "fun", "jac", "nit"))
                    if d:
                        bad.setdefault("C07.restart_from_state_gives_the_next_iterate", "restart from the state kept at iteration %d: %s" % (k, "; ".join(d)[:300]))
                        bad.setdefault("C07.restart_from_state_equals_uninterrupted", "restart from the state kept at iteration %d: %s" % (k, "; ".join(d)[:300]))
        out.append(dict(problem=name, violated=bad))
    return dict(runs=out)


@register("scenario_update")
def scenario_update(c):
    """C13: update_fun_def as identity / as an objective switch at update call `at` (0 = initial call)."""
    from collections import deque
    from scipy.optimize import LbfgsInvHessProduct, OptimizeResult
    out = []
    K = c.get("K", 4)
    mc = c.get("maxcor", 5)
    eps = float(c.get("eps_SY", 2.2e-16))
    epskw = dict(eps_SY=eps) if c.get("eps_SY") is not None else {}
    probs = problems()
    for name in ("qp2", "qp3", "rosen2", "styb3"):
        p = probs[name]
        bad = {}
        if c.get("eps_SY") is not None:
            # a non-default curvature threshold that matters on THIS problem: half the smallest s.y/y.y of the pairs
            # an ordinary run stores (they stay accepted; a rescaled objective then pushes them below the threshold)
            P0 = run_once(p, dict(maxiter=K + 2, maxfun=10 ** 6, maxls=20, maxcor=mc + 3, ftol=0.0, gtol=1e-12))
            if P0["exc"] is not None or not P0["snap"]["sk"].size:
                continue
            r0 = np.einsum("ij,ij->i", P0["snap"]["sk"], P0["snap"]["yk"]) / np.einsum("ij,ij->i", P0["snap"]["yk"], P0["snap"]["yk"])
            eps = 0.5 * float(r0.min())
            epskw = dict(eps_SY=eps)
        # ---- identity
        fstart = float(p["f"](np.clip(p["x0"], p["bounds"][:, 0], p["bounds"][:, 1])))
        for ftol, ftarget in ((0.0, None), (1e10, fstart - 1e-9 * (1 + abs(fstart))), (1e10, fstart + 1.0), (1e-3, fstart - 0.05 * (1 + abs(fstart))), (1e10, None)):
            base = dict(maxiter=K, maxfun=10 ** 6, maxls=20, maxcor=mc, ftol=ftol, gtol=1e-10)
            if ftarget is not None:
                base["ftarget"] = ftarget
            N = run_once(p, dict(base), callback_kind="false")
            I = run_once(p, dict(base), callback_kind="false", extra=dict(update_fun_def=lambda x, f0, f0_old, grad, X, G: (f0, f0_old, grad, G)))
            if N["exc"] or I["exc"]:
                bad["no_exception"] = "identity update raised %r" % (N["exc"] or I["exc"],)
                continue
            d = _same_state(N["snap"], I["snap"], fields=("x", "fun", "jac", "nfev", "njev", "nit", "sk", "yk", "message", "success"), tol=0.0)
            if d:
                bad.setdefault("C13.identity_update_leaves_result_identical", "ftol=%g ftarget=%r: %s" % (ftol, ftarget, "; ".join(d)[:300]))
            if len(N["states"]) != len(I["states"]) or any(_same_state(a["snap"], b["snap"], tol=0.0) for a, b in zip(N["states"], I["states"])):
                bad.setdefault("C13.identity_update_leaves_callback_states_identical", "callback states differ (ftol=%g ftarget=%r)" % (ftol, ftarget))
            if len(N["fcalls"]) != len(I["fcalls"]) or any(not np.array_equal(a[0], b[0]) for a, b in zip(N["fcalls"], I["fcalls"])):
                bad.setdefault("C13.identity_update_leaves_evaluations_identical", "evaluation points differ (ftol=%g ftarget=%r)" % (ftol, ftarget))
        # ---- switch of objective at update call `at`
        at = max(1, c.get("at", 2))
        for kind in ("negated", "rescaled", "tilted", "reject_newest") + (("adaptive_all", "adaptive_some") if epskw else ()):
            cfac = [3.0]
            bump = dict(xk=None, delta=None, sig2=1.0)
            if kind == "reject_newest":
                # 20 f plus a narrow bump at the current point, chosen at the switch so that the pair formed with the
                # current point has s.y < 0 (rejected) while the stored pairs stay valid: the matrices must then be rebuilt
                # from the STORED pairs of the NEW objective (its theta included)
                def _h(z):
                    if bump["xk"] is None:
                        return 0.0, 0.0 * z
                    dz = z - bump["xk"]
                    e = np.exp(-dz.dot(dz) / bump["sig2"])
                    return float(bump["delta"].dot(dz) * e), bump["delta"] * e - 2.0 * bump["delta"].dot(dz) * e * dz / bump["sig2"]
                f2 = lambda x: 20.0 * float(p["f"](x)) + _h(np.asarray(x, float))[0]
                g2 = lambda x: 20.0 * np.asarray(p["g"](x), float) + _h(np.asarray(x, float))[1]
            elif kind.startswith("adaptive"):
                # rescaling c*f chosen at the switch so that the rewritten pairs' s.y/y.y fall below the configured
                # threshold (all of them / the lower half): only a filter that uses eps_SY drops them
                f2 = lambda x: cfac[0] * float(p["f"](x))
                g2 = lambda x: cfac[0] * np.asarray(p["g"](x), float)
            elif kind == "negated":
                f2 = lambda x: -float(p["f"](x))
                g2 = lambda x: -np.asarray(p["g"](x), float)
            elif kind == "rescaled":
                f2 = lambda x: 3.0 * float(p["f"](x))
                g2 = lambda x: 3.0 * np.asarray(p["g"](x), float)
            else:
                w = np.linspace(1.0, 2.0, p["x0"].size)
                f2 = lambda x: float(p["f"](x)) - 4.0 * float(w.dot(x)) ** 2 + 0.5 * float(x.dot(x))
                g2 = lambda x: np.asarray(p["g"](x), float) - 8.0 * float(w.dot(x)) * w + x
            for ftol in (0.0, 1e10, 1e-300):
                # (1e-300: the update function hands back f0_old = the new value at the switch, so that the relative
                # reduction test ends the run exactly there, before the matrices are refreshed)
                state = dict(calls=0, switched=False, seen=None)

                def fun(x):
                    return f2(x) if state["switched"] else float(p["f"](x))

                def jac(x):
                    return g2(x) if state["switched"] else np.asarray(p["g"](x), float)

                def upd(x, f0, f0_old, grad, X, G):
                    i = state["calls"]
                    state["calls"] += 1
                    if i != at:
                        return f0, f0_old, grad, G
                    state["switched"] = True
                    if kind == "reject_newest" and len(X) >= 2:
                        xk_ = np.array(x, float)
                        last = np.array(X[-1], float)
                        s_new = xk_ - last
                        if s_new.dot(s_new) > 0:
                            want = 20.0 * np.asarray(p["g"](last), float) - 20.0 * s_new       # gradient at xk: y' = -20 s
                            bump["xk"], bump["delta"] = xk_, want - 20.0 * np.asarray(p["g"](xk_), float)
                            bump["sig2"] = (0.1 ** 2) * min(float((xk_ - np.array(q, float)).dot(xk_ - np.array(q, float))) for q in X)
                    if kind.startswith("adaptive"):
                        Xl_, Gl_ = [np.array(v, float) for v in X], [np.array(v, float) for v in G]
                        rr = sorted(float((b - a).dot(gb - ga) / max((gb - ga).dot(gb - ga), 1e-300)) for a, b, ga, gb in zip(Xl_, Xl_[1:], Gl_, Gl_[1:]))
                        rr = [r for r in rr if r > 0]
                        if rr:
                            cfac[0] = 1.3 * (rr[-1] if kind == "adaptive_all" else rr[len(rr) // 2]) / eps
                    if c.get("inplace"):
                        # the stored arrays are rewritten in place and the same deque is handed back
                        for gg, xx in zip(G, X):
                            gg[...] = g2(np.array(xx))
                        newG = G
                    else:
                        newG = deque(g2(np.array(xx)) for xx in X)
                    state["seen"] = dict(X=[np.array(xx, float).copy() for xx in X], G=[g.copy() for g in newG], x=np.array(x, float).copy(), f=f2(x), grad=g2(x))
                    return f2(x), (f2(x) if ftol == 1e-300 else f0_old), g2(x), newG
                pp = dict(p, f=fun, g=jac)
                R = run_once(pp, dict(maxiter=at + 1 if ftol == 0.0 else K, maxfun=10 ** 6, maxls=20, maxcor=mc, ftol=ftol, gtol=1e-12, **epskw), extra=dict(update_fun_def=upd))
                if R["exc"] is not None:
                    bad.setdefault("no_exception", "%s switch raised %r" % (kind, R["exc"]))
                    continue
                seen = state["seen"]
                if seen is None:
                    continue
                sk, yk = R["snap"]["sk"], R["snap"]["yk"]
                if sk.size:
                    sy = np.einsum("ij,ij->i", sk, yk)
                    yy = np.einsum("ij,ij->i", yk, yk)
                    if np.any(sy <= eps * yy):
                        bad.setdefault("C13.retained_pairs_satisfy_curvature", "%s switch at update %d (ftol=%g): result carries a pair with s.y=%s <= eps*y.y" % (kind, at, ftol, sy.tolist()))
                        if np.any(sy <= 0):
                            bad.setdefault("C18.pairs_have_positive_curvature", "%s switch at update %d (ftol=%g): result.hess_inv carries a pair with s.y=%s <= 0" % (kind, at, ftol, sy.tolist()))
                if ftol != 0.0 and state["calls"] == at + 1 and sk.size:
                    # a stop test ended the run right after the rewrite: the result is built from the rewritten history
                    pts_ = [(a_, b_) for a_, b_ in zip(seen["X"], seen["G"])] + [(seen["x"], seen["grad"])]
                    if not chain_ok(sk, yk, pts_):
                        bad.setdefault("C13.pairs_are_differences_of_rewritten_gradients", "%s switch at update %d, run stopped by ftol right after it: the result pairs are not differences of the rewritten gradients at stored points (yk=%s)" % (kind, at, yk.tolist()))
                if ftol != 0.0 or R["res"].nit <= at - 0:
                    continue
                # reference: restart on the new objective from the checkpoint holding the rewritten, filtered history
                keepX, keepG = [seen["X"][-1]], [seen["G"][-1]]
                for k in range(len(seen["X"]) - 2, -1, -1):
                    s_, y_ = keepX[0] - seen["X"][k], keepG[0] - seen["G"][k]
                    if s_.dot(y_) > eps * y_.dot(y_):
                        keepX.insert(0, seen["X"][k])
                        keepG.insert(0, seen["G"][k])
                s_, y_ = seen["x"] - keepX[-1], seen["grad"] - keepG[-1]
                if s_.dot(y_) > eps * y_.dot(y_):
                    keepX.append(seen["x"])
                    keepG.append(seen["grad"])
                skr = np.diff(np.array(keepX), axis=0).reshape(-1, seen["x"].size)
                ykr = np.diff(np.array(keepG), axis=0).reshape(-1, seen["x"].size)
                ck = OptimizeResult(fun=seen["f"], jac=seen["grad"].copy(), nfev=1, njev=1, nit=at, status=1, message="", x=seen["x"].copy(), success=True,
                                    hess_inv=LbfgsInvHessProduct(skr, ykr))
                p2 = dict(p, f=f2, g=g2)
                C = run_once(p2, dict(maxiter=at + 1, maxfun=10 ** 6, maxls=20, maxcor=mc, ftol=0.0, gtol=1e-12, **epskw), checkpoint=ck, x0=seen["x"].copy())
                if C["exc"] is None and R["res"].nit == at + 1 and C["res"].nit == at + 1:
                    if not _close(R["snap"]["x"], C["snap"]["x"], 1e-7):
                        bad.setdefault("C13.next_iterate_as_restart_on_new_objective",
                                       "%s switch at update %d: next iterate %s, a restart on the new objective from the rewritten history gives %s (pairs kept: %d)" % (
                                           kind, at, R["snap"]["x"].tolist(), C["snap"]["x"].tolist(), skr.shape[0]))
        # ---- gradient rewrite at the INITIAL update call of a restart (the history is already populated there)
        A0 = run_once(p, dict(maxiter=3, maxfun=10 ** 6, maxls=20, maxcor=mc, ftol=0.0, gtol=1e-12, **epskw))
        if A0["exc"] is None and A0["snap"]["sk"].shape[0] >= 1:
            ck0 = A0["res"]
            st0 = dict(calls=0)

            def upd0(x, f0, f0_old, grad, X, G):
                st0["calls"] += 1
                if st0["calls"] != 1:
                    return f0, f0_old, grad, G
                if c.get("inplace"):
                    for g in G:
                        g[...] = -np.asarray(g, float)
                    return -f0, f0_old, -np.asarray(grad, float), G
                return -f0, f0_old, -np.asarray(grad, float), deque(-np.asarray(g, float) for g in G)
            pneg = dict(p, f=lambda x: -float(p["f"](x)), g=lambda x: -np.asarray(p["g"](x), float))
            R0 = run_once(pneg, dict(maxiter=int(ck0.nit), maxfun=10 ** 6, maxls=20, maxcor=mc, ftol=0.0, gtol=1e-12, **epskw), checkpoint=copy.deepcopy(ck0), x0=ck0.x, extra=dict(update_fun_def=upd0))
            if R0["exc"] is not None:
                bad.setdefault("C13.retained_pairs_satisfy_curvature", "gradient rewrite at the initial update call of a restart: the run raises %s: %s" % (type(R0["exc"]).__name__, str(R0["exc"])[:120]))
            elif R0["snap"]["sk"].size:
                sy = np.einsum("ij,ij->i", R0["snap"]["sk"], R0["snap"]["yk"])
                yy = np.einsum("ij,ij->i", R0["snap"]["yk"], R0["snap"]["yk"])
                if np.any(sy <= eps * yy):
                    bad.setdefault("C13.retained_pairs_satisfy_curvature", "gradient rewrite (negated objective) at the initial update call of a restart: the result carries pairs with s.y=%s" % (sy.tolist(),))
                    bad.setdefault("C18.pairs_have_positive_curvature", "gradient rewrite at the initial update call of a restart: result.hess_inv carries pairs with s.y=%s <= 0" % (sy.tolist(),))
        # ---- arbitrary gradient rewrite that breaks the curvature of an INTERIOR pair (pattern rewrite)
        for nstored in (3, 4):
            state = dict(calls=0, seen=None)

            def upd2(x, f0, f0_old, grad, X, G, _n=nstored):
                state["calls"] += 1
                if len(X) != _n or state["seen"] is not None:
                    return f0, f0_old, grad, G
                Xl = [np.array(v, float) for v in X]
                newG = [np.array(v, float) for v in G]
                m = len(Xl) - 1
                sb = Xl[m] - Xl[m - 1]
                sa = Xl[m - 1] - Xl[m - 2]
                # wanted: newest stored pair invalid (p_{m-1} dropped), the pair before it valid against the dropped
                # point but invalid against the retained p_m
                rng = np.random.RandomState(7)
                ya = yb = None
                for _ in range(4000):
                    cand_b = -abs(rng.randn()) * (sb if rng.rand() < 0.5 else sa + sb) + 0.3 * rng.randn(sb.size) * np.linalg.norm(sb)
                    cand_a = abs(rng.randn()) * sa + 0.5 * rng.randn(sa.size) * np.linalg.norm(sa)
                    if sb.dot(cand_b) < -1e-6 and sa.dot(cand_a) > 1e-6 and (sa + sb).dot(cand_a + cand_b) < -1e-6:
                        ya, yb = cand_a, cand_b
                        break
                if ya is None:
                    return f0, f0_old, grad, G
                newG[m] = newG[m - 1] + yb
                newG[m - 2] = newG[m - 1] - ya
                state["seen"] = dict(X=Xl, G=[g.copy() for g in newG], x=np.array(x, float).copy())
                return f0, f0_old, grad, deque(newG)
            stop_at = dict(k=None)

            def cb(xk, st):
                return state["seen"] is not None
            R = run_once(p, dict(maxiter=12, maxfun=10 ** 6, maxls=20, maxcor=6, ftol=0.0, gtol=1e-14, **epskw), extra=dict(update_fun_def=upd2, callback=cb))
            if state["seen"] is None:
                continue
            if R["exc"] is not None:
                # an invalid pair left in the history makes the factorisation of the middle matrix fail
                bad.setdefault("C13.retained_pairs_satisfy_curvature", "gradient rewrite breaking an interior pair with %d stored points: the run raises %s: %s (a pair with non-positive curvature reached the matrix factorisation)" % (nstored, type(R["exc"]).__name__, str(R["exc"])[:120]))
                bad.setdefault("C18.pairs_have_positive_curvature", bad["C13.retained_pairs_satisfy_curvature"])
                continue
            sk, yk = R["snap"]["sk"], R["snap"]["yk"]
            if sk.size:
                sy = np.einsum("ij,ij->i", sk, yk)
                yy = np.einsum("ij,ij->i", yk, yk)
                if np.any(sy <= eps * yy):
                    bad.setdefault("C13.retained_pairs_satisfy_curvature", "gradient rewrite breaking an interior pair with %d stored points: result carries a pair with s.y=%s" % (nstored, sy.tolist()))
                    if np.any(sy <= 0):
                        bad.setdefault("C18.pairs_have_positive_curvature", "gradient rewrite breaking an interior pair: result.hess_inv carries a pair with s.y=%s <= 0" % (sy.tolist(),))
                pts = [(a, b) for a, b in zip(state["seen"]["X"], state["seen"]["G"])] + [(R["snap"]["x"], R["snap"]["jac"])]
                if not chain_ok(sk, yk, pts):
                    bad.setdefault("C13.pairs_are_differences_of_rewritten_gradients", "after a gradient rewrite the result pairs are not differences of the rewritten gradients at stored points")
        out.append(dict(problem=name, violated=bad))
    return dict(runs=out)


@register("scenario_scaler")
def scenario_scaler(c):
    """C17: gradient scaler s  ==  explicitly scaled objective."""
    out = []
    K = c.get("K", 4)
    base = dict(maxiter=K, maxfun=10 ** 6, maxls=20, maxcor=c.get("maxcor", 5), ftol=c.get("ftol", 0.0), gtol=1e-10)
    for name, p in problems().items():
        bad = {}
        # finite-difference modes: only powers of two scale the difference quotients exactly in float64
        scales = (0.25, 4.0, 2.0 ** -9, 2.0 ** 9) if c.get("jac") else (c.get("scale", 2.5), 1e-3, 1e3, 0.37)
        for s in scales:
            calls = []

            def scaler(x, g, lb, ub):
                calls.append(dict(x=np.array(x).copy(), g=np.array(g).copy(), lb=np.array(lb).copy(), ub=np.array(ub).copy()))
                return s
            LS = Logged(p)
            jx = {}
            if c.get("jac"):
                jx["jac"] = None if c["jac"] == "none" else c["jac"]
            S = run_once(p, dict(base), L=LS, callback_kind="false", extra=dict(gradient_scaler=scaler, **jx))
            LE = Logged(p, scale_obj=s)
            E = run_once(p, dict(base), L=LE, callback_kind="false", extra=dict(jx))
            if S["exc"] or E["exc"]:
                bad["no_exception"] = "raised %r" % (S["exc"] or E["exc"],)
                continue
            d = _same_state(S["snap"], E["snap"], fields=("x", "fun", "jac", "nfev", "njev", "nit", "sk", "yk", "message", "success"), tol=1e-9 if not c.get("jac") else 1e-5)
            if d:
                bad.setdefault("C17.same_result_as_scaled_objective", "s=%g: %s" % (s, "; ".join(d)[:300]))
            if len(LS.fcalls) != len(LE.fcalls) or any(not _close(a[0], b[0], 1e-12) for a, b in zip(LS.fcalls, LE.fcalls)):
                bad.setdefault("C17.same_evaluation_points", "s=%g: evaluation points differ (%d vs %d calls)" % (s, len(LS.fcalls), len(LE.fcalls)))
            if len(S["states"]) != len(E["states"]) or any(_same_state(a["snap"], b["snap"], tol=1e-9) for a, b in zip(S["states"], E["states"])):
                bad.setdefault("C17.same_callback_states", "s=%g: callback states differ" % s)
            lb, ub = p["bounds"][:, 0], p["bounds"][:, 1]
            if c.get("jac"):
                if len(calls) != 1:
                    bad.setdefault("C17.scaler_called_once_with_start_point_and_unscaled_gradient", "scaler invoked %d times" % len(calls))
            elif len(calls) != 1 or not np.array_equal(calls[0]["x"], LS.gcalls[0][0]) or not np.array_equal(calls[0]["g"], LS.gcalls[0][1]) \
                    or not np.array_equal(calls[0]["lb"], lb) or not np.array_equal(calls[0]["ub"], ub):
                bad.setdefault("C17.scaler_called_once_with_start_point_and_unscaled_gradient", "scaler invoked %d times / wrong arguments" % len(calls))
        # start at a (numerically) stationary point: the scaled and the explicitly scaled runs must still agree
        if not c.get("jac"):
            T0 = run_once(p, dict(base, maxiter=200, gtol=1e-12))
            if T0["exc"] is None:
                xs = T0["snap"]["x"]
                for s in (2.5, 0.01):
                    callsX = []
                    SX = run_once(p, dict(base, gtol=1e-7), x0=xs, callback_kind="false", extra=dict(gradient_scaler=lambda x, g, l_, u_, _s=s: (callsX.append(1), _s)[1]))
                    EX = run_once(p, dict(base, gtol=1e-7), L=Logged(p, scale_obj=s), x0=xs, callback_kind="false")
                    if SX["exc"] or EX["exc"]:
                        continue
                    d = _same_state(SX["snap"], EX["snap"], fields=("x", "fun", "jac", "nfev", "njev", "nit", "message"), tol=1e-9)
                    if d:
                        bad.setdefault("C17.same_result_as_scaled_objective", "start at a stationary point, s=%g: %s" % (s, "; ".join(d)[:300]))
                    if len(callsX) != 1:
                        bad.setdefault("C17.scaler_called_once_with_start_point_and_unscaled_gradient", "start at a stationary point: scaler invoked %d times" % len(callsX))
        # runs that end on the relative-reduction test (ftol > 0): the test has an absolute floor max(|f_old|, |f|, 1), so it
        # must be made on the scaled value, like in the run on s*f
        if not c.get("jac"):
            for s_ in (64.0, 1.0 / 64.0):
                for ftol_ in (1e-2, 1e-4, 1e-6):
                    SF = run_once(p, dict(base, ftol=ftol_, maxiter=60), callback_kind="false", extra=dict(gradient_scaler=lambda x, g, l_, u_, _s=s_: _s))
                    EF = run_once(p, dict(base, ftol=ftol_, maxiter=60), L=Logged(p, scale_obj=s_), callback_kind="false")
                    if SF["exc"] or EF["exc"]:
                        continue
                    d = _same_state(SF["snap"], EF["snap"], fields=("x", "fun", "jac", "nfev", "njev", "nit", "message"), tol=1e-9)
                    if d:
                        bad.setdefault("C17.same_result_as_scaled_objective", "ftol=%g, s=%g: %s" % (ftol_, s_, "; ".join(d)[:300]))
        # a curvature threshold (eps_SY) that matters: pairs of an ordinary run have s.y/y.y = r; with s = 4 (0.25) and
        # eps_SY = r_min/1.5 (1.5 r_min) the scaled problem sees r/s, just below (above) the threshold
        if not c.get("jac"):
            P0 = run_once(p, dict(base, maxiter=K + 2, maxcor=8, gtol=1e-12))
            if P0["exc"] is None and P0["snap"]["sk"].size:
                r0 = np.einsum("ij,ij->i", P0["snap"]["sk"], P0["snap"]["yk"]) / np.einsum("ij,ij->i", P0["snap"]["yk"], P0["snap"]["yk"])
                r0 = r0[r0 > 0]
                for s, eps_ in ((4.0, float(r0.min()) / 1.5), (0.25, 1.5 * float(r0.min()))) if r0.size else ():
                    SE = run_once(p, dict(base, maxiter=K + 2, maxcor=8, gtol=1e-12, eps_SY=eps_), callback_kind="false", extra=dict(gradient_scaler=lambda x, g, l_, u_, _s=s: _s))
                    EE = run_once(p, dict(base, maxiter=K + 2, maxcor=8, gtol=1e-12, eps_SY=eps_), L=Logged(p, scale_obj=s), callback_kind="false")
                    if SE["exc"] or EE["exc"]:
                        continue
                    d = _same_state(SE["snap"], EE["snap"], fields=("x", "fun", "jac", "nfev", "njev", "nit", "sk", "yk", "message"), tol=1e-9)
                    if d:
                        bad.setdefault("C17.same_result_as_scaled_objective", "eps_SY=%g, s=%g: %s" % (eps_, s, "; ".join(d)[:300]))
        # target tested on the unscaled value
        fstart = float(p["f"](np.clip(p["x0"], lb, ub)))
        ft = fstart - 1e-3 * (1 + abs(fstart))
        S = run_once(p, dict(base, ftarget=ft, maxiter=50), extra=dict(gradient_scaler=lambda x, g, lb, ub: 7.0))
        if S["exc"] is None and S["res"].message == MSG["TARGET"]:
            if float(p["f"](S["snap"]["x"])) > ft:
                bad["C17.target_tested_on_unscaled_value"] = "TARGET reported with unscaled f=%r > ftarget=%r" % (float(p["f"](S["snap"]["x"])), ft)
        # the same through the stop tests that follow an update_fun_def call (identity update), s in {4, 1/4}:
        # the scaler run with target T must equal the run on s*f with target s*T
        if not c.get("jac"):
            idu = lambda x, f0, f0_old, grad, X, G: (f0, f0_old, grad, G)
            for s_ in (4.0, 0.25):
                for frac in (1e-3, 0.2, 0.6):
                    ftu = fstart - frac * (1 + abs(fstart))
                    SU = run_once(p, dict(base, ftarget=ftu, maxiter=50), callback_kind="false", extra=dict(gradient_scaler=lambda x, g, l_, u_, _s=s_: _s, update_fun_def=idu))
                    EU = run_once(p, dict(base, ftarget=s_ * ftu, maxiter=50), L=Logged(p, scale_obj=s_), callback_kind="false", extra=dict(update_fun_def=idu))
                    if SU["exc"] or EU["exc"]:
                        continue
                    d = _same_state(SU["snap"], EU["snap"], fields=("x", "fun", "jac", "nfev", "njev", "nit", "message"), tol=1e-9)
                    if d:
                        bad.setdefault("C17.same_result_as_scaled_objective", "identity update_fun_def, target %g, s=%g: %s" % (ftu, s_, "; ".join(d)[:300]))
                    if SU["res"].message == MSG["TARGET"] and float(p["f"](SU["snap"]["x"])) > ftu:
                        bad.setdefault("C17.target_tested_on_unscaled_value", "identity update_fun_def, s=%g: TARGET reported with unscaled f=%r > ftarget=%r" % (s_, float(p["f"](SU["snap"]["x"])), ftu))
        if S["exc"] is None and S["res"].message == MSG["TARGET"]:
            pass
        elif S["exc"] is None:
            U = run_once(p, dict(base, ftarget=ft, maxiter=50))
            if U["exc"] is None and U["res"].message == MSG["TARGET"] and S["res"].message != MSG["TARGET"] and S["res"].nit >= U["res"].nit + 3:
                bad["C17.target_tested_on_unscaled_value"] = "with a scaler the target %r is never met (message %r)" % (ft, S["res"].message)
        out.append(dict(problem=name, violated=bad))
    return dict(runs=out)


class _RecLogger:
    def __init__(self):
        self.lines = []

    def info(self, m, *a):
        self.lines.append(str(m))

    warning = debug = error = info


@register("scenario_isolation")
def scenario_isolation(c):
    """C14: determinism, isolation between runs, inputs untouched, logging without influence."""
    out = []
    K = c.get("K", 4)
    probs = problems()
    names = list(probs)
    base = dict(maxiter=K, maxfun=10 ** 6, maxls=20, maxcor=c.get("maxcor", 5), ftol=0.0, gtol=1e-10)
    flds = ("x", "fun", "jac", "nfev", "njev", "nit", "sk", "yk", "message", "success")
    for i, name in enumerate(names):
        p = probs[name]
        q = probs[names[(i + 1) % len(names)]]
        bad = {}
        P1 = run_once(p, dict(base), callback_kind="false")
        if P1["exc"]:
            out.append(dict(problem=name, error=str(P1["exc"])))
            continue
        run_once(q, dict(base, maxiter=2))
        P2 = run_once(p, dict(base), callback_kind="false")
        if P2["exc"] or _same_state(P1["snap"], P2["snap"], fields=flds, tol=0.0):
            bad["C14.same_arguments_same_result"] = "second identical call differs: %s" % ("; ".join(_same_state(P1["snap"], P2["snap"], fields=flds, tol=0.0))[:300] if not P2["exc"] else P2["exc"])
        # nested run inside the objective at call index j
        for j in (0, 1, max(0, len(P1["fcalls"]) - 1)):
            L = Logged(p)
            orig = L.fun

            def fun(x, *a, _j=j, _L=L, _orig=orig):
                if len(_L.fcalls) == _j:
                    run_once(q, dict(base, maxiter=2))
                return _orig(x)
            L.fun = fun
            P3 = run_once(p, dict(base), L=L, callback_kind="false")
            if P3["exc"] or _same_state(P1["snap"], P3["snap"], fields=flds, tol=0.0):
                bad.setdefault("C14.nested_run_does_not_disturb", "a run nested in objective call %d changes the result" % j)
        # finite-difference runs with different settings nested in each other
        base_fd = dict(base, maxiter=min(K, 4))
        F1 = run_once(p, dict(base_fd), extra=dict(jac=None, eps=1e-8))
        if F1["exc"] is None:
            Lfd = Logged(p)
            origf = Lfd.fun

            def fun_fd(x, *a, _L=Lfd, _orig=origf):
                if len(_L.fcalls) == 1:
                    run_once(q, dict(base_fd, maxiter=2), extra=dict(jac="3-point", finite_diff_rel_step=1e-3))
                return _orig(x)
            Lfd.fun = fun_fd
            F2 = run_once(p, dict(base_fd), L=Lfd, extra=dict(jac=None, eps=1e-8))
            if F2["exc"] or _same_state(F1["snap"], F2["snap"], fields=("x", "fun", "jac", "nit", "sk", "yk", "message"), tol=0.0):
                bad.setdefault("C14.nested_run_does_not_disturb", "a finite-difference run nested in the objective of another finite-difference run changes its result%s" % (": " + str(F2["exc"]) if F2["exc"] else ""))
                bad.setdefault("C14.no_module_level_state_changed", bad["C14.nested_run_does_not_disturb"])
        # read-only inputs
        x0 = np.array(p["x0"], dtype=float)
        bnd = np.array(p["bounds"], dtype=float)
        x0c, bndc = x0.copy(), bnd.copy()
        x0.flags.writeable = False
        bnd.flags.writeable = False
        P4 = run_once(dict(p, bounds=bnd), dict(base), x0=x0, callback_kind="false")
        if P4["exc"]:
            bad["C14.read_only_inputs_accepted"] = "read-only x0/bounds: %r" % (P4["exc"],)
        elif not (np.array_equal(x0, x0c) and np.array_equal(bnd, bndc)):
            bad["C14.inputs_untouched"] = "x0 or bounds modified"
        if c.get("unbounded"):
            # the same without finite bounds (nothing to project), x0 writable and then read-only
            for ro in (False, True):
                x0u = np.array(p["x0"], dtype=float)
                bu = np.array([[-np.inf, np.inf]] * x0u.size)
                x0u_c = x0u.copy()
                x0u.flags.writeable = not ro
                P4u = run_once(dict(p, bounds=bu), dict(base), x0=x0u, callback_kind="false")
                if P4u["exc"]:
                    if ro:
                        bad.setdefault("C14.read_only_inputs_accepted", "read-only x0 without finite bounds: %r" % (P4u["exc"],))
                elif not np.array_equal(x0u, x0u_c):
                    bad.setdefault("C14.inputs_untouched", "without finite bounds the caller's x0 is modified: %s -> %s" % (x0u_c.tolist(), x0u.tolist()))
        # checkpoint: read-only, restart twice, with and without a scaler
        A = run_once(p, dict(base, maxiter=max(1, c.get("k", 2))))
        if not A["exc"]:
            for scaler in (None, lambda x, g, lb, ub: 3.0):
                ck = copy.deepcopy(A["res"])
                s0 = snap(ck)
                for arr in (ck.x, ck.jac, ck.hess_inv.sk, ck.hess_inv.yk):
                    arr.flags.writeable = False
                ex = dict(gradient_scaler=scaler) if scaler else None
                R1 = run_once(p, dict(base), checkpoint=ck, x0=ck.x, extra=ex)
                if R1["exc"]:
                    bad.setdefault("C14.read_only_inputs_accepted", "read-only checkpoint%s: %r" % (" with scaler" if scaler else "", R1["exc"]))
                    ck = copy.deepcopy(A["res"])
                    s0 = snap(ck)
                    R1 = run_once(p, dict(base), checkpoint=ck, x0=ck.x, extra=ex)
                    if R1["exc"]:
                        continue
                if _same_state(s0, snap(ck), fields=flds, tol=0.0):
                    bad.setdefault("C14.checkpoint_untouched", "restart%s modified the checkpoint: %s" % (" with scaler" if scaler else "", "; ".join(_same_state(s0, snap(ck), fields=flds, tol=0.0))[:300]))
                R2 = run_once(p, dict(base), checkpoint=ck, x0=ck.x, extra=ex)
                if R2["exc"] or _same_state(R1["snap"], R2["snap"], fields=flds, tol=0.0):
                    bad.setdefault("C14.restart_twice_same_result", "two restarts%s from one checkpoint object differ" % (" with scaler" if scaler else ""))
        # logging
        for ipr in (-1, 0, 1, 50, 99, 100, 101):
            lg = _RecLogger()
            P5 = run_once(p, dict(base), callback_kind="false", extra=dict(iprint=ipr, logger=lg))
            if P5["exc"]:
                bad.setdefault("C14.logging_does_not_raise", "iprint=%d: %r" % (ipr, P5["exc"]))
            elif _same_state(P1["snap"], P5["snap"], fields=flds, tol=0.0):
                bad.setdefault("C14.logging_has_no_numerical_influence", "iprint=%d changes the result" % ipr)
        # logging while update_fun_def rewrites the stored gradients (negated objective from update call 2 on: every
        # stored pair loses its curvature and the history filter, which logs what it drops, has work to do)
        if c.get("rewrite"):
            from collections import deque

            def mk():
                st = dict(calls=0, sw=False)
                pp = dict(p, f=lambda x: (-1.0 if st["sw"] else 1.0) * float(p["f"](x)), g=lambda x: (-1.0 if st["sw"] else 1.0) * np.asarray(p["g"](x), float))

                def upd(x, f0, f0_old, grad, X, G):
                    st["calls"] += 1
                    if st["calls"] != 3:
                        return f0, f0_old, grad, G
                    st["sw"] = True
                    return -f0, f0_old, -np.asarray(grad, float), deque(-np.asarray(g, float) for g in G)
                return pp, upd
            pa, ua = mk()
            N1 = run_once(pa, dict(base, maxiter=4), callback_kind="false", extra=dict(update_fun_def=ua))
            pb, ub_ = mk()
            N2 = run_once(pb, dict(base, maxiter=4), callback_kind="false", extra=dict(update_fun_def=ub_, iprint=0, logger=_RecLogger()))
            if (N1["exc"] is None) != (N2["exc"] is None):
                bad.setdefault("C14.logging_has_no_numerical_influence", "with an objective redefinition the logger decides whether the run raises: without logger %r, with logger %r" % (N1["exc"], N2["exc"]))
            elif N1["exc"] is None and _same_state(N1["snap"], N2["snap"], fields=flds, tol=0.0):
                bad.setdefault("C14.logging_has_no_numerical_influence", "with an objective redefinition (negated at update call 2) the logger changes the result: %s" % ("; ".join(_same_state(N1["snap"], N2["snap"], fields=flds, tol=0.0))[:300]))
        out.append(dict(problem=name, violated=bad))
    return dict(runs=out)


class _UserError(RuntimeError):
    pass


@register("scenario_fault")
def scenario_fault(c):
    """C20: a user callable raises at call index i; the exception must escape unchanged; a later clean call is unaffected."""
    out = []
    K = c.get("K", 3)
    kinds = [c["fault_kind"]] if c.get("fault_kind") else ["fun", "jac", "callback", "ftarget", "gtol", "scaler", "update"]
    etypes = [TypeError, IndexError, ValueError, AssertionError, ZeroDivisionError, KeyError, StopIteration, ArithmeticError, LookupError, _UserError]
    flds = ("x", "fun", "jac", "nfev", "njev", "nit", "sk", "yk", "message", "success")
    err_state0 = np.geterr()
    for name in ("qp2", "rosen2"):
        p = problems()[name]
        bad = {}
        base = dict(maxiter=K, maxfun=10 ** 6, maxls=20, maxcor=5, ftol=0.0, gtol=1e-10)

        def build(kind, fault):
            """-> (Logged, cfg-extra, callback) with the callable of `kind` raising at fault=(index, exc)."""
            L = Logged(p)
            cnt = dict(n=0)

            def hit():
                i = cnt["n"]
                cnt["n"] += 1
                if fault is not None and i == fault[0]:
                    raise fault[1]
            extra = {}
            if kind in ("fun", "jac"):
                if fault is not None:
                    L.fault = (kind, fault[0], fault[1])
            if kind == "ftarget":
                def ft():
                    hit()
                    return -1e300
                extra["ftarget"] = ft
            if kind == "gtol":
                def gt():
                    hit()
                    return 1e-10
                extra["gtol"] = gt
            if kind == "scaler":
                def sc(x, g, lb, ub):
                    hit()
                    return 2.0
                extra["gradient_scaler"] = sc
            if kind == "update":
                def up(x, f0, f0_old, grad, X, G):
                    hit()
                    return f0, f0_old, grad, G
                extra["update_fun_def"] = up
            if kind == "callback":
                def cb(xk, st):
                    hit()
                    return False
                extra["callback"] = cb
            if c.get("jac"):
                # finite-difference gradient: the objective's faults then also fall inside a difference sweep
                extra["jac"] = None if c["jac"] == "none" else c["jac"]
            return L, extra, cnt
        for kind in kinds:
            L0, extra0, cnt0 = build(kind, None)
            clean = run_once(p, dict(base), L=L0, extra=extra0)
            if clean["exc"]:
                bad.setdefault("no_exception", "clean run with a %s callable raised %r" % (kind, clean["exc"]))
                continue
            ncalls = dict(fun=len(clean["fcalls"]), jac=len(clean["gcalls"])).get(kind, cnt0["n"])
            for idx in sorted(({0, 1, ncalls - 1} | ({2, 3, 4} if c.get("jac") else set())) & set(range(ncalls))):
                for et in etypes:
                    err = et("user failure #%d" % idx)
                    L1, extra1, _ = build(kind, (idx, err))
                    F = run_once(p, dict(base), L=L1, extra=dict(extra1, _keep_errstate=True))
                    if np.geterr() != err_state0:
                        bad.setdefault("C20.fault_free_call_afterwards_unaffected", "after a %s in %s the numpy floating-point error state is %s (was %s): state left behind" % (et.__name__, kind, np.geterr(), err_state0))
                        bad.setdefault("C20.no_module_level_state_changed", bad["C20.fault_free_call_afterwards_unaffected"])
                        np.seterr(**err_state0)
                    if F["exc"] is not err:
                        got = "a result with message %r" % F["res"].message if F["exc"] is None else "%s: %s" % (type(F["exc"]).__name__, F["exc"])
                        bad.setdefault("C20.exception_propagates", "%s raising %s at its call %d: the caller gets %s" % (kind, et.__name__, idx, got))
                    L2, extra2, _ = build(kind, None)
                    after = run_once(p, dict(base), L=L2, extra=extra2)
                    if after["exc"] or _same_state(clean["snap"], after["snap"], fields=flds, tol=0.0):
                        bad.setdefault("C20.fault_free_call_afterwards_unaffected", "after a %s in %s the clean call differs" % (et.__name__, kind))
        out.append(dict(problem=name, violated=bad))
    return dict(runs=out)


@register("fd_modes")
def fd_modes(c):
    """C16 at run level on the real API: starts on the bounds / optimum on the bounds, all evaluations inside the box,
    no exception, nfev counts every objective call, options passed through (observed by wrapping approx_derivative)."""
    import lbfgsb.scalar_function as sfm
    mode = c["jac"]
    jac = None if mode in (None, "none") else mode
    bad = {}
    nruns = 0
    real_ad = sfm.approx_derivative
    probs = dict(problems())
    # partly infinite boxes: the bounds must reach the differencing routine whatever their pattern
    for base_name in ("qp2", "qp3"):
        q = dict(probs[base_name])
        b = np.array(q["bounds"], dtype=float)
        b[0::2, 0] = -np.inf
        b[1::2, 1] = np.inf
        q["bounds"] = b
        probs[base_name + "_onesided"] = q
    for name, p in probs.items():
        if name.startswith("expdrop"):
            continue
        lb, ub = p["bounds"][:, 0], p["bounds"][:, 1]
        starts = [p["x0"], np.where(np.isfinite(lb), lb, p["x0"]), np.where(np.isfinite(ub), ub, p["x0"]),
                  np.where(np.arange(lb.size) % 2 == 0, np.where(np.isfinite(lb), lb, p["x0"]), np.where(np.isfinite(ub), ub, p["x0"]))]
        for x0 in starts:
            L = Logged(p)
            seen = []

            def spy(fun, x0_, **kw):
                seen.append(dict(x0=np.array(x0_).copy(), kw=kw, nf=len(L.fcalls)))
                return real_ad(fun, x0_, **kw)
            sfm.approx_derivative = spy
            try:
                extra = dict(jac=jac)
                if c.get("scaler"):
                    extra["gradient_scaler"] = lambda x, g, l_, u_: 4.0
                R = run_once(p, dict(maxiter=15, maxfun=10 ** 6, maxls=20, maxcor=5, ftol=0.0, gtol=1e-6), L=L, x0=x0, extra=extra)
            finally:
                sfm.approx_derivative = real_ad
            nruns += 1
            if R["exc"] is not None:
                bad.setdefault("no_exception", "%s from x0=%s raises %s: %s" % (name, np.asarray(x0).tolist(), type(R["exc"]).__name__, R["exc"]))
                continue
            if R["snap"]["message"] not in MSG.values() or not np.all(np.isfinite(R["snap"]["jac"])):
                bad.setdefault("C16.run_terminates_normally_on_every_box", "%s from x0=%s with jac=%r: message %r, jac=%s" % (name, np.asarray(x0).tolist(), jac, R["snap"]["message"], R["snap"]["jac"].tolist()))
            if any(np.any(q < lb) or np.any(q > ub) for q, _ in L.fcalls):
                bad.setdefault("C16.evaluation_points_in_box", "%s: an objective evaluation (stencil included) lies outside the box" % name)
            if R["snap"]["nfev"] != len(L.fcalls):
                bad.setdefault("C16.nfev_counts_stencil_evaluations", "%s: nfev=%d but %d objective calls" % (name, R["snap"]["nfev"], len(L.fcalls)))
            for s_ in seen:
                kw = s_["kw"]
                exp = "2-point" if jac is None else jac
                b = kw.get("bounds")
                ok_b = b is not None and np.array_equal(b[0], lb) and np.array_equal(b[1], ub)
                f_here = next((v for q, v in reversed(L.fcalls[:s_["nf"]]) if np.array_equal(q, s_["x0"])), None)
                if kw.get("method") != exp or not ok_b or (jac is None) != (kw.get("abs_step") is not None):
                    bad.setdefault("C16.finite_difference_options_passed_through", "%s: approx_derivative called with method=%r abs_step=%r bounds ok=%s" % (name, kw.get("method"), kw.get("abs_step"), ok_b))
                    bad.setdefault("C16.differencing_called_with_problem_bounds_and_current_value", bad["C16.finite_difference_options_passed_through"])
                if f_here is None or kw.get("f0") != f_here:
                    bad.setdefault("C16.f0_given_to_differencing_is_value_at_x", "%s: f0=%r handed to the differencing routine, objective at that point is %r" % (name, kw.get("f0"), f_here))
                    bad.setdefault("C16.differencing_called_with_problem_bounds_and_current_value", bad["C16.f0_given_to_differencing_is_value_at_x"])
    # a restart in a finite-difference mode: nfev keeps counting every objective call (stencil points included) across
    # the two legs, njev the gradient computations
    for name in ("qp2", "rosen2", "styb3"):
        p = probs[name]
        L = Logged(p)
        A = run_once(p, dict(maxiter=2, maxfun=10 ** 6, maxls=20, maxcor=5, ftol=0.0, gtol=1e-12), L=L, extra=dict(jac=jac))
        if A["exc"] is not None or A["res"].message != MSG["ITER"]:
            continue
        B = run_once(p, dict(maxiter=4, maxfun=10 ** 6, maxls=20, maxcor=5, ftol=0.0, gtol=1e-12), L=L, checkpoint=copy.deepcopy(A["res"]), x0=A["res"].x, extra=dict(jac=jac))
        nruns += 1
        if B["exc"] is not None:
            bad.setdefault("no_exception", "%s: restart in mode %r raises %r" % (name, jac, B["exc"]))
        else:
            if B["snap"]["nfev"] != len(L.fcalls):
                bad.setdefault("C16.nfev_counts_stencil_evaluations", "%s: after a restart nfev=%d but %d objective calls were made in the two legs" % (name, B["snap"]["nfev"], len(L.fcalls)))
            if B["snap"]["njev"] != A["fd_grads"] + B["fd_grads"]:
                bad.setdefault("C16.nfev_counts_stencil_evaluations", "%s: after a restart njev=%d but %d finite-difference gradients were computed in the two legs" % (name, B["snap"]["njev"], A["fd_grads"] + B["fd_grads"]))
    return dict(violated=bad, runs=nruns)
