"""Whole-run concrete scenarios on the real public API, with an audit of the run-level properties
(C02-C07, C13, C14, C17, C18, C20) evaluated on the real results.  Used to confirm orchestration
counterexamples: the symbolic harness fixes a *scenario* (configuration, restart/split indices, which
callable misbehaves); it is replayed here on a small battery of concrete problems."""
import copy
import math

import numpy as np

from reg import register

MSG = {
    "PGTOL": "CONVERGENCE: NORM_OF_PROJECTED_GRADIENT_<=_PGTOL",
    "FTOL": "CONVERGENCE: REL_REDUCTION_OF_F_<=_FTOL",
    "TARGET": "CONVERGENCE: F_<=_TARGET",
    "ITER": "STOP: TOTAL NO. of ITERATIONS REACHED LIMIT",
    "EVAL": "STOP: TOTAL NO. of f AND g EVALUATIONS EXCEEDS LIMIT",
    "CALLBACK": "STOP: USER CALLBACK",
    "ABNORMAL": "ABNORMAL_TERMINATION_IN_LNSRCH",
}


# ---------------------------------------------------------------------------
# battery


def problems():
    import lbfgsb
    out = {}
    A = np.array([[4.0, 1.0], [1.0, 3.0]])
    b = np.array([1.0, -2.0])
    out["qp2"] = dict(f=lambda x: 0.5 * x.dot(A @ x) - b.dot(x), g=lambda x: A @ x - b,
                      x0=np.array([1.5, 1.0]), bounds=np.array([[-1.0, 2.0], [-0.25, 2.0]]))
    A3 = np.array([[6.0, 2.0, 1.0], [2.0, 5.0, 2.0], [1.0, 2.0, 4.0]])
    b3 = np.array([1.0, 3.0, -4.0])
    out["qp3"] = dict(f=lambda x: 0.5 * x.dot(A3 @ x) - b3.dot(x), g=lambda x: A3 @ x - b3,
                      x0=np.array([2.0, -1.0, 1.0]), bounds=np.array([[-1.0, 3.0], [-2.0, 0.5], [-0.5, 3.0]]))
    out["rosen2"] = dict(f=lbfgsb.rosenbrock, g=lbfgsb.rosenbrock_grad, x0=np.array([-1.2, 1.0]),
                         bounds=np.array([[-2.0, 2.0], [-1.0, 2.0]]))
    out["styb3"] = dict(f=lbfgsb.styblinski_tang, g=lbfgsb.styblinski_tang_grad, x0=np.array([0.5, -0.5, 1.0]),
                        bounds=np.array([[-4.0, 4.0], [-4.0, 0.0], [-1.0, 4.0]]))
    out["quartic4"] = dict(f=lbfgsb.quartic, g=lbfgsb.quartic_grad, x0=np.array([1.0, -1.5, 0.7, 2.0]),
                           bounds=np.array([[-2.0, 2.0], [-2.0, 2.0], [0.5, 2.0], [-2.0, 2.5]]))
    # objectives on which short line searches (small maxls) fail in mid-run
    out["expdrop1"] = dict(f=lambda x: float(np.sum(x + np.exp(-10.0 * x))), g=lambda x: 1.0 - 10.0 * np.exp(-10.0 * x),
                           x0=np.array([-0.5]), bounds=np.array([[-2.0, 2.0]]))
    out["expdrop2"] = dict(f=lambda x: float(np.sum(x + np.exp(-10.0 * x))), g=lambda x: 1.0 - 10.0 * np.exp(-10.0 * x),
                           x0=np.array([-0.5, -0.3]), bounds=np.array([[-2.0, 2.0], [-1.0, 3.0]]))
    return out


class Logged:
    """User callables that log every call."""

    def __init__(self, p, scale_obj=1.0):
        self.p = p
        self.fcalls = []
        self.gcalls = []
        self.k = scale_obj
        self.fault = None      # (kind, index, exception)

    def fun(self, x, *a):
        if self.fault and self.fault[0] == "fun" and len(self.fcalls) == self.fault[1]:
            raise self.fault[2]
        v = self.k * float(self.p["f"](x))
        self.fcalls.append((np.array(x, dtype=float).copy(), v))
        return v

    def jac(self, x, *a):
        if self.fault and self.fault[0] == "jac" and len(self.gcalls) == self.fault[1]:
            raise self.fault[2]
        v = self.k * np.asarray(self.p["g"](x), dtype=float)
        self.gcalls.append((np.array(x, dtype=float).copy(), v.copy()))
        return v


def snap(res):
    return dict(x=np.array(res.x, dtype=float).copy(), fun=float(res.fun), jac=np.array(res.jac, dtype=float).copy(),
                nfev=int(res.nfev), njev=int(res.njev), nit=int(res.nit), message=res.message, success=bool(res.success),
                status=res.status, sk=np.array(res.hess_inv.sk, dtype=float).copy(), yk=np.array(res.hess_inv.yk, dtype=float).copy())


def projgr(x, g, lb, ub):
    return float(np.max(np.abs(np.clip(x - g, lb, ub) - x)))


def run_once(p, cfg, L=None, checkpoint=None, x0=None, callback_kind=None, extra=None):
    """One real minimize_lbfgsb call.  Returns a record dict."""
    from lbfgsb import minimize_lbfgsb
    L = L or Logged(p)
    n0f, n0g = len(L.fcalls), len(L.gcalls)
    states = []
    kw = dict(cfg)
    cbk = callback_kind

    def cb(xk, state):
        states.append(dict(xk=np.array(xk).copy(), live=state, snap=snap(state)))
        if cbk == "false" or cbk is None:
            return False
        if cbk == "true":
            return True
        if isinstance(cbk, (list, tuple)) and cbk[0] == "true_at":
            return len(states) - 1 == cbk[1]
        return False
    if cbk is not None:
        kw["callback"] = cb
    counters = dict(ftarget=0, gtol=0)
    if kw.get("ftarget_callable") is not None:
        v = kw.pop("ftarget_callable")

        def ft():
            counters["ftarget"] += 1
            return v
        kw["ftarget"] = ft
    if kw.get("gtol_callable") is not None:
        v = kw.pop("gtol_callable")

        def gt():
            counters["gtol"] += 1
            return v
        kw["gtol"] = gt
    if extra:
        kw.update(extra)
    x0 = np.array(p["x0"] if x0 is None else x0, dtype=float)
    rec = dict(L=L, states=states, counters=counters, cfg=cfg, checkpoint=checkpoint, exc=None, res=None)
    try:
        with np.errstate(all="ignore"):
            res = minimize_lbfgsb(x0=x0, fun=L.fun, jac=kw.pop("jac", L.jac), bounds=p["bounds"], checkpoint=checkpoint, **kw)
        rec["res"] = res
        rec["snap"] = snap(res)
    except Exception as e:  # noqa
        rec["exc"] = e
    rec["fcalls"] = L.fcalls[n0f:]
    rec["gcalls"] = L.gcalls[n0g:]
    return rec


def audit(rec, p, maxiter, maxfun, gtol, ftarget=None, scale=1.0, ck=None, ftarget_callable=False, gtol_callable=False,
          callable_grad=True, maxcor=10, history=None):
    """Evaluate the run-level obligations on a real run record.  Returns {obligation: description} of violations."""
    bad = {}
    if rec["exc"] is not None:
        bad["no_exception"] = "raised %s: %s" % (type(rec["exc"]).__name__, rec["exc"])
        return bad
    s = rec["snap"]
    lb, ub = p["bounds"][:, 0], p["bounds"][:, 1]
    key = next((k for k, v in MSG.items() if v == s["message"]), None)
    nit0 = ck["nit"] if ck else 0
    n0 = ck["nfev"] if ck else 1
    njev0 = ck["njev"] if ck else 0
    nfev_base = ck["nfev"] if ck else 0
    early_ck = ck is not None and rec["res"] is rec["checkpoint"]
    # ---- C04
    if key is None:
        bad["C04.message_documented"] = "message %r is not a documented termination reason (success=%s)" % (s["message"], s["success"])
    if key == "PGTOL" and projgr(s["x"], s["jac"], lb, ub) > gtol:
        bad["C04.pgtol_message_true"] = "projected gradient %g > gtol %g" % (projgr(s["x"], s["jac"], lb, ub), gtol)
    if key == "TARGET" and (ftarget is None or s["fun"] / scale > ftarget):
        bad["C04.target_message_true"] = "fun %r > ftarget %r" % (s["fun"] / scale, ftarget)
    if key == "ITER" and s["nit"] < maxiter:
        bad["C04.iter_message_true"] = "nit %d < maxiter %d" % (s["nit"], maxiter)
    if key == "EVAL" and s["nfev"] < maxfun:
        bad["C04.eval_message_true"] = "nfev %d < maxfun %d" % (s["nfev"], maxfun)
    if key is not None and (not s["success"]) != (key == "ABNORMAL"):
        bad["C04.success_false_iff_abnormal"] = "success=%s with message %r" % (s["success"], s["message"])
    if s["nit"] > max(maxiter, nit0):
        bad["C04.nit_within_budget"] = "nit %d > max(maxiter %d, nit at restart %d)" % (s["nit"], maxiter, nit0)
    if callable_grad and s["nfev"] > max(maxfun, n0) + 1:
        bad["C04.nfev_within_budget"] = "nfev %d > max(maxfun %d, n0 %d) + 1" % (s["nfev"], maxfun, n0)
    if ftarget_callable and rec["counters"]["ftarget"] != 1:
        bad["C04.ftarget_called_once"] = "callable ftarget invoked %d times" % rec["counters"]["ftarget"]
    if gtol_callable and rec["counters"]["gtol"] != 1:
        bad["C04.gtol_called_once"] = "callable gtol invoked %d times" % rec["counters"]["gtol"]
    # ---- C05
    L = rec["L"]
    any_grad = len(rec["gcalls"]) > 0 or ck is not None

    def fval(x):
        for (q, v) in reversed(L.fcalls):
            if np.array_equal(q, x):
                return v
        return None

    def gval(x):
        for (q, v) in reversed(L.gcalls):
            if np.array_equal(q, x):
                return v
        return None
    if any_grad and not early_ck:
        fv = fval(s["x"])
        if fv is None or fv * scale != s["fun"]:
            bad["C05.fun_belongs_to_x"] = "result.fun=%r but the objective at result.x gives %r (x %s evaluated)" % (s["fun"], None if fv is None else fv * scale, "was" if fv is not None else "never")
        if callable_grad:
            gv = gval(s["x"])
            if gv is None or not np.array_equal(gv * scale, s["jac"]):
                bad["C05.jac_belongs_to_x"] = "result.jac=%s but the gradient at result.x gives %s" % (s["jac"].tolist(), None if gv is None else (gv * scale).tolist())
    for k, st in enumerate(rec["states"]):
        sx = st["snap"]
        fv = fval(sx["x"])
        if fv is None or fv * scale != sx["fun"]:
            bad.setdefault("C05.callback_fun_belongs_to_x", "callback %d: state.fun=%r, objective at state.x=%r" % (k, sx["fun"], fv))
        if callable_grad:
            gv = gval(sx["x"])
            if gv is None or not np.array_equal(gv * scale, sx["jac"]):
                bad.setdefault("C05.callback_jac_belongs_to_x", "callback %d: state.jac is not the gradient at state.x" % k)
    if s["nfev"] != nfev_base + len(rec["fcalls"]) and not early_ck:
        bad["C05.nfev_equals_calls"] = "nfev=%d but %d (+%d at restart) objective calls were made" % (s["nfev"], len(rec["fcalls"]), nfev_base)
    if callable_grad and s["njev"] != njev0 + len(rec["gcalls"]) and not early_ck:
        bad["C05.njev_equals_calls"] = "njev=%d but %d (+%d at restart) gradient calls were made" % (s["njev"], len(rec["gcalls"]), njev0)
    # ---- C03
    seq = []
    if ck is None and rec["fcalls"]:
        seq.append(rec["fcalls"][0][1])
    elif ck is not None:
        seq.append(ck["fun"] / scale)
    for st in rec["states"]:
        v = fval(st["snap"]["x"])
        if v is not None:
            seq.append(v)
    v = fval(s["x"])
    if v is not None:
        seq.append(v)
    for a, b in zip(seq, seq[1:]):
        if b > a:
            bad["C03.objective_never_increases"] = "objective sequence %s increases" % (seq,)
            break
    # ---- C18 provenance
    sk, yk = s["sk"], s["yk"]
    if sk.shape[0] > maxcor:
        bad["C18.at_most_maxcor_pairs"] = "%d pairs with maxcor=%d" % (sk.shape[0], maxcor)
    if sk.size and callable_grad:
        if np.any(np.einsum("ij,ij->i", sk, yk) <= 0):
            bad["C18.pairs_have_positive_curvature"] = "a pair has s.y <= 0"
        pts = list(history or [])
        for (q, gq) in L.gcalls:
            pts.append((q, gq * scale))
        ok = chain_ok(sk, yk, pts)
        if not ok:
            bad["C18.pairs_are_differences_of_visited_iterates"] = "sk/yk rows are not differences of consecutive retained visited points and of the gradients returned there (sk=%s)" % (sk.tolist(),)
    return bad


def chain_ok(sk, yk, pts, tol=1e-9):
    """exists chronological chain in pts [(x, g)] reproducing the rows of sk, yk (oldest first)."""
    m = sk.shape[0]

    def close(a, b):
        return np.allclose(a, b, rtol=tol, atol=tol * (1 + np.max(np.abs(b))))

    def rec(a, j):
        if j < 0:
            return True
        for k in range(a - 1, -1, -1):
            if close(pts[a][0] - pts[k][0], sk[j]) and close(pts[a][1] - pts[k][1], yk[j]) and rec(k, j - 1):
                return True
        return False
    return any(rec(a, m - 1) for a in range(len(pts) - 1, -1, -1))


def _cfg_from(c):
    cfg = dict(maxiter=c["maxiter"], maxfun=c["maxfun"], maxls=c.get("maxls", 20), maxcor=c.get("maxcor", 10),
               ftol=c.get("ftol", 0.0), gtol=c.get("gtol", 1e-8))
    return cfg


@register("scenario_single")
def scenario_single(c):
    """Replay a single-run scenario (optionally from a real checkpoint) on the battery and audit it."""
    out = []
    variants = [c]
    if c.get("sweep"):
        # budget scenarios: the symbolic trajectory (which line search fails when) cannot be forced on real
        # kernels, so the neighbouring budgets are replayed too, on objectives whose short line searches fail
        for mf in range(max(1, c["maxfun"] - 1), c["maxfun"] + 6):
            for ml in sorted({c.get("maxls", 2), 1, 2, 3}):
                for ckp in ((0, 1) if c.get("checkpoint") else (0,)):
                    v = dict(c, maxfun=mf, maxls=ml, maxiter=max(c["maxiter"], 6))
                    if not ckp:
                        v.pop("checkpoint", None)
                    if v != c:
                        variants.append(v)
    for v in variants:
        for name, p in problems().items():
            if v.get("sweep") and not name.startswith(("expdrop", "rosen")):
                continue
            _single_one(v, name, p, out)
    return dict(runs=out)


def _single_one(c, name, p, out):
    L = Logged(p)
    ck = None
    ck_obj = None
    history = None
    if c.get("checkpoint"):
        first = run_once(p, dict(maxiter=c["ck_nit"], maxfun=10 ** 6, maxcor=c.get("ck_maxcor", c.get("maxcor", 10)), ftol=0.0, gtol=0.0), L=L)
        if first["exc"] is not None:
            out.append(dict(problem=name, error="first leg raised %r" % (first["exc"],)))
            return
        ck_obj = first["res"]
        ck = dict(nit=int(ck_obj.nit), nfev=int(ck_obj.nfev), njev=int(ck_obj.njev), fun=float(ck_obj.fun))
        history = [(q.copy(), g.copy()) for q, g in L.gcalls]
    f_start = ck["fun"] if ck else float(p["f"](np.clip(p["x0"], p["bounds"][:, 0], p["bounds"][:, 1])))
    fts = [None]
    if c.get("ftarget_kind", "none") != "none":
        fts = [f_start + 1.0, f_start - 1e-3 * (1 + abs(f_start)), -1e300]
    for ft in fts:
        cfg = _cfg_from(c)
        if ft is not None:
            if c.get("ftarget_kind") == "callable":
                cfg["ftarget_callable"] = ft
            else:
                cfg["ftarget"] = ft
        gtol = cfg["gtol"]
        if c.get("gtol_kind") == "callable":
            cfg["gtol_callable"] = cfg.pop("gtol")
        cbks = [c.get("callback_kind")] if c.get("callback_kind") not in ("choose",) else ["false", "true", ["true_at", 1]]
        for cbk in cbks:
            L2 = L if ck is not None else Logged(p)
            rec = run_once(p, dict(cfg), L=L2, checkpoint=copy.deepcopy(ck_obj) if ck_obj is not None else None,
                           x0=ck_obj.x if ck_obj is not None else None, callback_kind=cbk)
            bad = audit(rec, p, c["maxiter"], c["maxfun"], gtol, ftarget=ft, ck=ck, ftarget_callable=c.get("ftarget_kind") == "callable",
                        gtol_callable=c.get("gtol_kind") == "callable", maxcor=cfg["maxcor"], history=history)
            if cbk not in (None, "false") and rec["res"] is not None and rec["res"].message == MSG["CALLBACK"] and not rec["states"]:
                bad["C04.callback_message_true"] = "callback message without a callback call"
            out.append(dict(problem=name, ftarget=ft, callback=cbk, violated=bad,
                            config={k: c[k] for k in ("maxiter", "maxfun", "maxls") if k in c}, restart=bool(c.get("checkpoint")),
                            message=None if rec["res"] is None else rec["res"].message,
                            nit=None if rec["res"] is None else int(rec["res"].nit), nfev=None if rec["res"] is None else int(rec["res"].nfev)))


def _close(a, b, tol=1e-6):
    a, b = np.asarray(a, float), np.asarray(b, float)
    if a.shape != b.shape:
        return False
    return bool(np.allclose(a, b, rtol=tol, atol=tol * (1 + (np.max(np.abs(b)) if b.size else 0))))


def _same_state(s1, s2, fields=("x", "fun", "jac", "nit", "sk", "yk"), tol=1e-6):
    diffs = []
    for f in fields:
        a, b = s1[f], s2[f]
        if f in ("nit", "nfev", "njev", "message", "success"):
            if a != b:
                diffs.append("%s: %r vs %r" % (f, a, b))
        elif not _close(a, b, tol):
            diffs.append("%s: %s vs %s" % (f, np.asarray(a).tolist(), np.asarray(b).tolist()))
    return diffs


@register("scenario_restart")
def scenario_restart(c):
    """C06: uninterrupted run vs stop at k + restart (no-op restart, next iterate, full continuation, chain, reduced maxcor)."""
    out = []
    K, k = c["K"], c["k"]
    mc, mc2 = c.get("maxcor", 10), c.get("maxcor_restart", c.get("maxcor", 10))
    base = dict(maxfun=10 ** 6, maxls=c.get("maxls", 20), ftol=0.0, gtol=c.get("gtol", 1e-12))
    for name, p in problems().items():
        bad = {}
        U = run_once(p, dict(base, maxiter=K, maxcor=mc))
        A = run_once(p, dict(base, maxiter=k, maxcor=mc))
        if U["exc"] or A["exc"]:
            out.append(dict(problem=name, error=str(U["exc"] or A["exc"])))
            continue
        if A["res"].message != MSG["ITER"]:
            out.append(dict(problem=name, skipped="first leg not stopped by maxiter (%s)" % A["res"].message))
            continue
        ck = A["res"]
        B0 = run_once(p, dict(base, maxiter=k, maxcor=mc2), checkpoint=copy.deepcopy(ck), x0=ck.x)
        if B0["exc"]:
            bad["no_exception"] = "no-op restart raised %r" % (B0["exc"],)
        else:
            m = min(A["snap"]["sk"].shape[0], mc2)
            if not (_close(B0["snap"]["sk"], A["snap"]["sk"][A["snap"]["sk"].shape[0] - m:], 1e-9) and _close(B0["snap"]["yk"], A["snap"]["yk"][A["snap"]["yk"].shape[0] - m:], 1e-9)):
                bad["C06.noop_restart_keeps_pairs"] = "restart with maxiter=%d returns sk=%s, the stopped run had sk=%s" % (k, B0["snap"]["sk"].tolist(), A["snap"]["sk"].tolist())
        U1 = run_once(p, dict(base, maxiter=k + 1, maxcor=mc))
        B1 = run_once(p, dict(base, maxiter=k + 1, maxcor=mc2), checkpoint=copy.deepcopy(ck), x0=ck.x)
        if B1["exc"] or U1["exc"]:
            bad["no_exception"] = "restart raised %r" % (B1["exc"] or U1["exc"],)
        elif mc2 == mc:
            d = _same_state(U1["snap"], B1["snap"], fields=("x", "fun", "jac", "nit"))
            if d:
                bad["C06.next_iterate_equals_uninterrupted"] = "iterate %d after a restart at %d differs from the uninterrupted run: %s" % (k + 1, k, "; ".join(d)[:400])
                bad["C06.next_iterate_state_equal"] = bad["C06.next_iterate_equals_uninterrupted"]
        else:
            d = _same_state(U1["snap"], B1["snap"], fields=("nit",))
            sku, skb = U1["snap"]["sk"], B1["snap"]["sk"]
        B = run_once(p, dict(base, maxiter=K, maxcor=mc2), checkpoint=copy.deepcopy(ck), x0=ck.x)
        if not B["exc"] and mc2 == mc and name.startswith("qp"):
            d = _same_state(U["snap"], B["snap"])
            if d:
                bad["C06.restarted_equals_uninterrupted"] = "after %d iterations the restarted run (split at %d) differs from the uninterrupted one: %s" % (K, k, "; ".join(d)[:400])
        if mc2 < mc and not B1["exc"] and not U1["exc"]:
            # the pairs carried into the next iteration are the most recent ones of the stopped run
            m = min(A["snap"]["sk"].shape[0], mc2)
            exp = A["snap"]["sk"][A["snap"]["sk"].shape[0] - m:]
            got = B0["snap"]["sk"] if not B0["exc"] else None
            if got is None or not _close(got, exp, 1e-9):
                bad["C06.reduced_memory_keeps_most_recent_pairs"] = "restart with maxcor=%d keeps sk=%s, most recent pairs are %s" % (mc2, None if got is None else got.tolist(), exp.tolist())
        k2 = c.get("k2")
        if k2 and mc2 == mc and name.startswith("qp"):
            Bm = run_once(p, dict(base, maxiter=k2, maxcor=mc), checkpoint=copy.deepcopy(ck), x0=ck.x)
            if not Bm["exc"] and Bm["res"].message == MSG["ITER"]:
                C = run_once(p, dict(base, maxiter=K, maxcor=mc), checkpoint=copy.deepcopy(Bm["res"]), x0=Bm["res"].x)
                if not C["exc"]:
                    d = _same_state(U["snap"], C["snap"])
                    if d:
                        bad["C06.chain_of_restarts_equals_uninterrupted"] = "chain %d -> %d -> %d differs from the uninterrupted run: %s" % (k, k2, K, "; ".join(d)[:400])
        out.append(dict(problem=name, violated=bad))
    return dict(runs=out)


@register("scenario_callback")
def scenario_callback(c):
    """C07: callback states as crash checkpoints."""
    out = []
    K = c["K"]
    mc = c.get("maxcor", 10)
    base = dict(maxfun=10 ** 6, maxls=c.get("maxls", 20), ftol=0.0, gtol=c.get("gtol", 1e-12), maxcor=mc)
    for name, p in problems().items():
        bad = {}
        N = run_once(p, dict(base, maxiter=K))
        C = run_once(p, dict(base, maxiter=K), callback_kind="false")
        if N["exc"] or C["exc"]:
            out.append(dict(problem=name, error=str(N["exc"] or C["exc"])))
            continue
        d = _same_state(N["snap"], C["snap"], fields=("x", "fun", "jac", "nfev", "njev", "nit", "sk", "yk", "message", "success"), tol=0.0)
        if d:
            bad["C07.callback_returning_false_does_not_alter_the_run"] = "; ".join(d)[:400]
        for idx, st in enumerate(C["states"], start=1):
            at_call, live = st["snap"], snap(st["live"])
            d = _same_state(at_call, live, fields=("x", "fun", "jac", "nfev", "njev", "nit", "sk", "yk"), tol=0.0)
            if d:
                bad.setdefault("C07.state_unchanged_after_callback_returns", "state of callback %d changed after the callback returned: %s" % (idx, "; ".join(d)[:300]))
            if not np.array_equal(st["xk"], at_call["x"]):
                bad.setdefault("C07.xk_argument_equals_state_x", "callback %d: xk != state.x" % idx)
            k = at_call["nit"]
            if not (idx <= k <= K):
                bad.setdefault("C07.state_nit_is_the_iteration_number", "callback %d reports nit=%d" % (idx, k))
                bad.setdefault("C07.state_equals_result_of_run_with_maxiter_k", "callback %d reports nit=%d" % (idx, k))
                continue
            M = run_once(p, dict(base, maxiter=k))
            if M["exc"]:
                continue
            d = _same_state(at_call, M["snap"], fields=("x", "fun", "jac", "nfev", "njev", "nit", "sk", "yk"), tol=0.0)
            if d:
                bad.setdefault("C07.state_equals_result_of_run_with_maxiter_k", "state after iteration %d vs result of maxiter=%d: %s" % (k, k, "; ".join(d)[:300]))
            if k < K:
                ckp = st["live"]
                R1 = run_once(p, dict(base, maxiter=k + 1), checkpoint=ckp, x0=np.array(ckp.x, dtype=float))
                M1 = run_once(p, dict(base, maxiter=k + 1))
                if R1["exc"]:
                    bad.setdefault("C07.restart_from_state_gives_the_next_iterate", "restart from the retained state raised %r" % (R1["exc"],))
                elif not M1["exc"]:
                    d = _same_state(M1["snap"], R1["snap"], fields=("x", "fun", "jac", "nit"))
                    if d:
                        bad.setdefault("C07.restart_from_state_gives_the_next_iterate", "restart from the state kept at iteration %d: %s" % (k, "; ".join(d)[:300]))
                        bad.setdefault("C07.restart_from_state_equals_uninterrupted", "restart from the state kept at iteration %d: %s" % (k, "; ".join(d)[:300]))
        out.append(dict(problem=name, violated=bad))
    return dict(runs=out)
