"""Kernel-level concrete runners: Cauchy point, subspace minimisation, matrices, line search."""
import os
import sys
from collections import deque

import numpy as np

from reg import register


def _mats(n, S, Y, maxcor=None):
    from lbfgsb.bfgsmats import LBFGSB_MATRICES, update_lbfgs_matrices
    mats = LBFGSB_MATRICES(n)
    X = deque([np.zeros(n)])
    G = deque([np.zeros(n)])
    x = np.zeros(n)
    g = np.zeros(n)
    maxcor = maxcor or max(len(S), 1)
    for s, y in zip(S, Y):
        x = x + np.array(s, dtype=float)
        g = g + np.array(y, dtype=float)
        mats = update_lbfgs_matrices(x.copy(), g.copy(), X, G, maxcor, mats, False)
    return mats, X, G


def dense_B(n, S, Y):
    if not S:
        return np.eye(n), 1.0
    s, y = np.array(S[-1], float), np.array(Y[-1], float)
    theta = y.dot(y) / s.dot(y)
    B = theta * np.eye(n)
    for s, y in zip(S, Y):
        s, y = np.array(s, float), np.array(y, float)
        Bs = B @ s
        B = B - np.outer(Bs, Bs) / s.dot(Bs) + np.outer(y, y) / y.dot(s)
    return B, theta


def ref_gcp(x, g, l, u, B):
    """Float version of the oracle: first local minimiser along the projected path."""
    n = x.size
    t = np.full(n, np.inf)
    for i in range(n):
        if g[i] < 0:
            t[i] = (x[i] - u[i]) / g[i]
        elif g[i] > 0:
            t[i] = (x[i] - l[i]) / g[i]
    d = np.where((g == 0) | (t == 0), 0.0, -g)
    xc = x.copy()
    moving = d != 0
    tprev = 0.0
    while moving.any():
        z = xc - x
        f1 = d.dot(g + B @ z)
        f2 = d.dot(B @ d)
        if f1 >= 0:
            break
        dtmin = -f1 / f2
        tnext = t[moving].min()
        dt = tnext - tprev
        if dtmin < dt:
            xc = xc + dtmin * d
            break
        for i in range(n):
            if moving[i] and t[i] == tnext:
                xc[i] = u[i] if d[i] > 0 else l[i]
                moving[i] = False
                d[i] = 0.0
            elif moving[i]:
                xc[i] = xc[i] + dt * d[i]
        tprev = tnext
    return xc


def q_model(x, g, B, p):
    s = p - x
    return g.dot(s) + 0.5 * s.dot(B @ s)


@register("cauchy")
def run_cauchy(c):
    from lbfgsb.cauchy import get_cauchy_point
    n = c["n"]
    mats, _, _ = _mats(n, c["S"], c["Y"])
    x, g, l, u = (np.array(c[k], dtype=float) for k in ("x", "g", "l", "u"))
    with np.errstate(all="ignore"):
        xcp, cc = get_cauchy_point(x.copy(), g.copy(), l, u, mats, c.get("iter", 1), -1, None)
    B, theta = dense_B(n, c["S"], c["Y"])
    ref = ref_gcp(x, g, l, u, B)
    W = mats.W
    proj = W.T @ (xcp - x) if c["S"] else None
    return dict(x_cp=xcp.tolist(), c=np.asarray(cc).tolist(), ref=ref.tolist(),
                q_xcp=float(q_model(x, g, B, xcp)), q_ref=float(q_model(x, g, B, ref)),
                feasible=bool(np.all(xcp >= l) and np.all(xcp <= u)),
                c_proj=None if proj is None else proj.tolist())


def ref_subspace(x, g, l, u, xc, B):
    n = x.size
    free = [i for i in range(n) if xc[i] != l[i] and xc[i] != u[i]]
    if not free:
        return xc.copy(), free, 1.0
    r = g + B @ (xc - x)
    dN = -np.linalg.solve(B[np.ix_(free, free)], r[free])
    alpha = 1.0
    for k, i in enumerate(free):
        if dN[k] > 0:
            alpha = min(alpha, (u[i] - xc[i]) / dN[k])
        elif dN[k] < 0:
            alpha = min(alpha, (l[i] - xc[i]) / dN[k])
    xbar = xc.copy()
    xbar[free] = xc[free] + alpha * dN
    return xbar, free, alpha


@register("subspace")
def run_subspace(c):
    from lbfgsb.cauchy import get_cauchy_point
    from lbfgsb.subspacemin import get_freev, subspace_minimization
    n = c["n"]
    mats, _, _ = _mats(n, c["S"], c["Y"])
    x, g, l, u = (np.array(c[k], dtype=float) for k in ("x", "g", "l", "u"))
    B, theta = dense_B(n, c["S"], c["Y"])
    with np.errstate(all="ignore"):
        if c["mode"] == "pipeline":
            xcp, cc = get_cauchy_point(x.copy(), g.copy(), l, u, mats, 1, -1, None)
        else:
            xcp = np.array(c["xc"], dtype=float)
            cc = mats.W.T @ (xcp - x) if c["S"] else np.zeros(1)
        free_vars, Z, A = get_freev(xcp, l, u, 1, None, -1, None)
        xbar = subspace_minimization(x, xcp.copy(), free_vars, Z, A, cc, g, l, u, mats)
    ref, free, alpha = ref_subspace(x, g, l, u, xcp, B)
    return dict(x_cp=xcp.tolist(), xbar=np.asarray(xbar).tolist(), ref=ref.tolist(), free=[int(i) for i in free],
                alpha=float(alpha), q_xbar=float(q_model(x, g, B, np.asarray(xbar))), q_xcp=float(q_model(x, g, B, xcp)),
                gd=float(g.dot(np.asarray(xbar) - x)),
                in_box=bool(np.all(np.asarray(xbar) >= l) and np.all(np.asarray(xbar) <= u)))


@register("matrices")
def run_matrices(c):
    from lbfgsb.bfgsmats import bmv
    n = c["n"]
    mats, X, G = _mats(n, c["S"], c["Y"], c.get("maxcor"))
    B = []
    for j in range(n):
        e = np.zeros(n)
        e[j] = 1.0
        B.append(mats.theta * e - mats.W @ bmv(mats.invMfactors, mats.W.T @ e))
    B = np.array(B).T
    npairs = len(X) - 1
    Sk = [list(map(float, X[k + 1] - X[k])) for k in range(npairs)]
    Yk = [list(map(float, G[k + 1] - G[k])) for k in range(npairs)]
    Bd, theta = dense_B(n, Sk, Yk)
    s, y = np.array(Sk[-1]), np.array(Yk[-1])
    return dict(B=B.tolist(), B_dense=Bd.tolist(), theta=float(mats.theta), theta_ref=float(y.dot(y) / s.dot(y)),
                npairs=npairs, eig_min=float(np.linalg.eigvalsh((B + B.T) / 2).min()),
                secant_res=float(np.abs(B @ s - y).max()), asym=float(np.abs(B - B.T).max()))


@register("matstep")
def run_matstep(c):
    """One real update_lbfgs_matrices from a given memory state."""
    from lbfgsb.bfgsmats import LBFGSB_MATRICES, update_lbfgs_matrices
    n = c["n"]
    Xl = [np.array(v, dtype=float) for v in c["X"]]
    Gl = [np.array(v, dtype=float) for v in c["G"]]
    X, G = deque(Xl), deque(Gl)
    mats = LBFGSB_MATRICES(n)
    before = {f: getattr(mats, f) for f in mats.__slots__}
    xk, gk = np.array(c["xk"], dtype=float), np.array(c["gk"], dtype=float)
    ret = update_lbfgs_matrices(xk, gk, X, G, c["maxcor"], mats, bool(c.get("force")), c.get("eps", 2.2e-16))
    s, y = xk - Xl[-1], gk - Gl[-1]
    spec_accept = bool(s.dot(y) > c.get("eps", 2.2e-16) * y.dot(y))
    appended = len(X) > 0 and X[-1] is xk and G[-1] is gk
    unchanged = len(X) == len(Xl) and all(a is b for a, b in zip(X, Xl)) and all(a is b for a, b in zip(G, Gl))
    mats_unchanged = all(getattr(ret, f) is before[f] for f in mats.__slots__)
    keep = len(X) - 1 if appended else len(X)
    survivors_ok = all(a is b for a, b in zip(list(X)[:keep], Xl[len(Xl) - keep:])) if keep else True
    pairs_ok = all(bool((X[k + 1] - X[k]).dot(G[k + 1] - G[k]) > c.get("eps", 2.2e-16) * (G[k + 1] - G[k]).dot(G[k + 1] - G[k]))
                   for k in range(len(X) - 1))
    out = dict(spec_accept=spec_accept, appended=bool(appended), unchanged=bool(unchanged), mats_unchanged=bool(mats_unchanged),
               len_after=len(X), len_G_after=len(G), survivors_ok=bool(survivors_ok), pairs_ok=bool(pairs_ok), same_object=ret is mats)
    if c.get("force") and not appended and len(X) >= 2:
        s2, y2 = X[-1] - X[-2], G[-1] - G[-2]
        out["theta"] = float(ret.theta)
        out["theta_ref"] = float(y2.dot(y2) / s2.dot(y2))
        out["S"] = np.asarray(ret.S).tolist()
        out["S_ref"] = np.diff(np.array(X), axis=0).T.tolist()
        out["Y"] = np.asarray(ret.Y).tolist()
        out["Y_ref"] = np.diff(np.array(G), axis=0).T.tolist()
        out["mats_unchanged"] = True
    if appended:
        out["theta"] = float(ret.theta)
        out["theta_ref"] = float(y.dot(y) / s.dot(y))
        out["S"] = np.asarray(ret.S).tolist()
        out["S_ref"] = np.diff(np.array(X), axis=0).T.tolist()
        out["Y"] = np.asarray(ret.Y).tolist()
        out["Y_ref"] = np.diff(np.array(G), axis=0).T.tolist()
    return out


def _richardson_grad(f, x):
    """6th-order central differences with Richardson extrapolation."""
    x = np.asarray(x, dtype=float)
    g = np.zeros_like(x)
    for i in range(x.size):
        def cd(h):
            e = np.zeros_like(x)
            e[i] = h
            return (f(x + e) - f(x - e)) / (2 * h)
        h = 1e-2
        T = [[cd(h / 2 ** k)] for k in range(5)]
        for k in range(1, 5):
            for j in range(1, k + 1):
                T[k].append(T[k][j - 1] + (T[k][j - 1] - T[k - 1][j - 1]) / (4 ** j - 1))
        g[i] = T[4][4]
    return g


@register("benchgrad")
def run_benchgrad(c):
    import lbfgsb
    f, g = getattr(lbfgsb, c["name"]), getattr(lbfgsb, c["name"] + "_grad")
    x0 = np.array(c["x"], dtype=float)
    pts = [x0] + [x0 + d for d in (0.137, -0.211, 0.0613)]
    out = []
    for x in pts:
        with np.errstate(all="ignore"):
            val = f(x.copy())
            gr = np.asarray(g(x.copy()), dtype=float)
            num = _richardson_grad(f, x)
        out.append(dict(x=x.tolist(), grad=gr.tolist(), numeric=num.tolist(), scalar=bool(np.ndim(val) == 0),
                        shape_ok=bool(gr.shape == x.shape),
                        err=float(np.max(np.abs(gr - num) / (1 + np.abs(num)))) if gr.shape == x.shape else None))
    return dict(points=out)


class _RayFunction:
    """f(x) = phi(alpha), alpha = (x - x0).d/|d|^2 ; phi = cubic Hermite through given nodes, or a named shape."""

    def __init__(self, x0, d, spec):
        self.x0 = np.array(x0, float)
        self.d = np.array(d, float)
        self.dd = float(self.d.dot(self.d))
        self.spec = spec
        self.log = []
        if spec["type"] == "hermite":
            nodes = sorted((float(a), float(f), float(g)) for a, f, g in spec["nodes"])
            ded = []
            for nd in nodes:
                if not ded or abs(nd[0] - ded[-1][0]) > 1e-14:
                    ded.append(nd)
            self.nodes = ded

    def phi(self, a):
        s = self.spec
        if s["type"] == "hermite":
            N = self.nodes
            if a <= N[0][0]:
                return N[0][1] + N[0][2] * (a - N[0][0]), N[0][2]
            if a >= N[-1][0]:
                return N[-1][1] + N[-1][2] * (a - N[-1][0]), N[-1][2]
            for (a0, f0, g0), (a1, f1, g1) in zip(N, N[1:]):
                if a0 <= a <= a1:
                    h = a1 - a0
                    t = (a - a0) / h
                    h00, h10, h01, h11 = 2 * t ** 3 - 3 * t ** 2 + 1, t ** 3 - 2 * t ** 2 + t, -2 * t ** 3 + 3 * t ** 2, t ** 3 - t ** 2
                    d00, d10, d01, d11 = 6 * t ** 2 - 6 * t, 3 * t ** 2 - 4 * t + 1, -6 * t ** 2 + 6 * t, 3 * t ** 2 - 2 * t
                    return (h00 * f0 + h10 * h * g0 + h01 * f1 + h11 * h * g1,
                            (d00 * f0 + d10 * h * g0 + d01 * f1 + d11 * h * g1) / h)
        if s["type"] == "steep_quadratic":      # -a + c a^2
            c = s.get("c", 10.0)
            return s.get("f0", 0.0) + s["slope"] * a + c * abs(s["slope"]) * a * a, s["slope"] + 2 * c * abs(s["slope"]) * a
        if s["type"] == "oscillating":
            w = s.get("w", 25.0)
            return s.get("f0", 0.0) + s["slope"] * np.sin(w * a) / w + 0.3 * abs(s["slope"]) * (1 - np.cos(3 * w * a)) / w, s["slope"] * np.cos(w * a) + 0.9 * abs(s["slope"]) * np.sin(3 * w * a)
        if s["type"] == "bump":                 # decreasing slope at 0, then rises above f0 everywhere tried
            return s.get("f0", 0.0) + s["slope"] * a * np.exp(-40 * a) + abs(s["slope"]) * a * a, s["slope"] * (1 - 40 * a) * np.exp(-40 * a) + 2 * abs(s["slope"]) * a
        raise ValueError(s["type"])

    def alpha(self, x):
        return float((np.asarray(x, float) - self.x0).dot(self.d) / self.dd)

    def fun(self, x):
        a = self.alpha(x)
        self.log.append(np.array(x, float).tolist())
        return float(self.phi(a)[0])

    def grad(self, x):
        a = self.alpha(x)
        return self.phi(a)[1] * self.d / self.dd


@register("linesearch")
def run_linesearch(c):
    from lbfgsb.linesearch import line_search
    from lbfgsb.scalar_function import prepare_scalar_function
    x0, d, l, u = (np.array(c[k], dtype=float) for k in ("x0", "d", "l", "u"))
    out = []
    for spec in c["functions"]:
        rf = _RayFunction(x0, d, spec)
        sf = prepare_scalar_function(rf.fun, x0, jac=rf.grad, bounds=(l, u))
        f0 = sf.fun(x0)
        g0 = sf.grad(x0)
        n0 = sf.nfev
        rf.log = []
        with np.errstate(all="ignore"):
            try:
                step = line_search(x0.copy(), f0, g0, d, l, u, c["iter"], 1e8, bool(c["is_boxed"]), sf,
                                   c.get("ftol", 1e-3), c.get("gtol", 0.9), 0.1, c["T"], -1, None)
                exc = None
            except Exception as e:  # noqa
                step, exc = None, "%s: %s" % (type(e).__name__, e)
        nev = sf.nfev - n0
        pts = [p for p in rf.log]
        in_box = all(bool(np.all(np.array(p) >= l) and np.all(np.array(p) <= u)) for p in pts)
        r = dict(spec=spec, step=None if step is None else float(step), evaluations=nev, in_box=in_box, exception=exc,
                 f0=float(f0), slope=float(g0.dot(d)))
        if step is not None:
            p = x0 + step * d
            r["f_step"] = float(rf.phi(rf.alpha(p))[0])
            r["downhill"] = bool(r["f_step"] < f0)
            r["feasible"] = bool(step > 0 and np.all(p >= l - 0 * p) and np.all(p <= u))
        out.append(r)
    return dict(runs=out)


@register("hessdiag")
def run_hessdiag(c):
    from scipy.optimize import LbfgsInvHessProduct
    from lbfgsb import extract_hess_inv_diag
    sk, yk = np.array(c["S"], dtype=float), np.array(c["Y"], dtype=float)
    H = LbfgsInvHessProduct(sk, yk)
    d = np.asarray(extract_hess_inv_diag(H), dtype=float)
    dd = np.diag(H.todense())
    return dict(diag=d.tolist(), dense_diag=dd.tolist(), shape_ok=bool(d.shape == (c["n"],)))


@register("unit_scaler")
def run_unit_scaler(c):
    from lbfgsb import get_gradient_projection_unit_scaling
    x, g, l, u = (np.array(c[k], dtype=float) for k in ("x", "g", "l", "u"))
    with np.errstate(all="ignore"):
        v = float(get_gradient_projection_unit_scaling(x, g, l, u))
        ref = float(1.0 / np.max(np.abs(x - np.clip(x - g, l, u))))
    return dict(value=v, ref=ref)


@register("sf_history")
def run_sf_history(c):
    """Replay a call history on the real ScalarFunction and audit it against fresh evaluations."""
    from lbfgsb.scalar_function import prepare_scalar_function
    from scipy.optimize._numdiff import approx_derivative
    n = c["n"]
    A = np.array([[2.0, 0.3, 0.1], [0.3, 1.5, 0.2], [0.1, 0.2, 1.0]])[:n, :n]
    calls = dict(f=[], g=[])

    def f(x, *a):
        if np.iscomplexobj(x):
            # complex-step stencil evaluation
            calls["f"].append(np.array(x.real, float).copy() + np.inf * 0 if False else np.full(x.shape, np.nan))
            return 0.5 * x.dot(A @ x) + np.sin(x).sum()
        calls["f"].append(np.array(x, float).copy())
        return float(0.5 * x.dot(A @ x) + np.sin(x).sum())

    def g(x, *a):
        calls["g"].append(np.array(x, float).copy())
        return A @ x + np.cos(x)
    lb, ub = np.full(n, -50.0), np.full(n, 50.0)
    deg = list(c.get("degenerate") or [])
    if deg:
        # degenerate sides: lb_i == ub_i == 0.25, every point of the history has that component at 0.25
        c = dict(c, x0=list(c["x0"]), ops=[dict(o) for o in c["ops"]])
        for i in deg:
            lb[i] = ub[i] = 0.25
            c["x0"][i] = 0.25
            for o in c["ops"]:
                if "point" in o:
                    o["point"] = list(o["point"])
                    o["point"][i] = 0.25
                if o["op"] == "mutate":
                    o["value"] = list(o["value"])
                    o["value"][i] = 0.25
    for i in list(c.get("narrow") or []):
        # a side that is narrow but NOT degenerate: [0.25, 0.25 + 2e-9], every point of the history at its middle
        c = dict(c, x0=list(c["x0"]), ops=[dict(o) for o in c["ops"]])
        lb[i], ub[i] = 0.25, 0.25 + 2e-9
        c["x0"][i] = 0.25 + 1e-9
        for o in c["ops"]:
            if "point" in o:
                o["point"] = list(o["point"])
                o["point"][i] = 0.25 + 1e-9
            if o["op"] == "mutate":
                o["value"] = list(o["value"])
                o["value"][i] = 0.25 + 1e-9
    free = [i for i in range(n) if i not in deg]
    mode = c["jac"]
    jac = g if mode == "callable" else (None if mode == "none" else mode)
    x0arr = np.array(c["x0"], float)
    sf = prepare_scalar_function(f, x0arr, jac=jac, bounds=(lb, ub), epsilon=c.get("eps", 1e-8), finite_diff_rel_step=c.get("rel_step"))
    bad = {}
    scale = 1.0
    last = x0arr      # the array given to the constructor is 'the array passed last' (the caller may reuse / overwrite it)
    last_grad = None
    requests = []
    own_f = []     # (index into calls['f'], request index) for evaluations at requested points
    for step, op in enumerate(c["ops"]):
        kind = op["op"]
        if kind == "mutate":
            if last is not None:
                last[:] = np.array(op["value"], float)
            continue
        if kind == "rescale":
            scale = float(op["value"])
            sf.scaling_factor = scale
            continue
        if kind == "mutate_returned":
            if last_grad is not None:
                last_grad[:] = np.array(op["value"], float)
            continue
        arr = last if (op.get("reuse") and last is not None) else np.array(op["point"], float)
        pt = arr.copy()
        requests.append(pt)
        nf0 = len(calls["f"])
        if kind == "fun":
            vf, vg = sf.fun(arr), None
        elif kind == "grad":
            vf, vg = None, sf.grad(arr)
        else:
            vf, vg = sf.fun_and_grad(arr)
        last = arr
        if vg is not None and isinstance(vg, np.ndarray):
            last_grad = vg
        for k in range(nf0, len(calls["f"])):
            if np.array_equal(calls["f"][k], pt):
                own_f.append((k, len(requests) - 1))
        nfu, ngu = len(calls["f"]), len(calls["g"])
        ref_f = float(0.5 * pt.dot(A @ pt) + np.sin(pt).sum())
        if vf is not None and vf != ref_f * scale:
            bad.setdefault("C15.value_is_fresh", "step %d (%s): returned %r, fresh evaluation times the factor gives %r" % (step, kind, vf, ref_f * scale))
        if vg is not None:
            if mode == "callable":
                ref_g = (A @ pt + np.cos(pt)) * scale
            else:
                kw = dict(method="2-point" if mode == "none" else mode, bounds=(lb, ub))
                if mode == "none":
                    kw["abs_step"] = c.get("eps", 1e-8)
                else:
                    kw["rel_step"] = c.get("rel_step")
                ref_g = approx_derivative(lambda x: 0.5 * x.dot(A @ x) + np.sin(x).sum(), pt, f0=ref_f, **kw) * scale
            if deg and not np.all(np.isfinite(np.asarray(vg, float)[deg])):
                bad.setdefault("C15.gradient_is_finite_on_degenerate_sides", "step %d (%s): lb == ub == 0.25 in components %s, returned gradient %s" % (step, kind, deg, np.asarray(vg).tolist()))
            if not np.array_equal(np.asarray(vg, float)[free], ref_g[free]):
                bad.setdefault("C15.gradient_is_fresh", "step %d (%s): returned %s, fresh gradient times the factor gives %s" % (step, kind, np.asarray(vg).tolist(), ref_g.tolist()))
        if sf.nfev != nfu:
            bad.setdefault("C15.nfev_counts_objective_calls", "step %d: nfev=%d, %d objective calls made" % (step, sf.nfev, nfu))
        if mode == "callable" and sf.ngev != ngu:
            bad.setdefault("C15.ngev_counts_gradient_computations", "step %d: ngev=%d, %d gradient calls made" % (step, sf.ngev, ngu))
    for (ka, ra), (kb, rb) in zip(own_f, own_f[1:]):
        if np.array_equal(calls["f"][ka], calls["f"][kb]) and all(np.array_equal(r, calls["f"][ka]) for r in requests[ra:rb + 1]):
            bad.setdefault("C15.no_reevaluation_at_the_cached_point", "the objective was evaluated twice in a row at %s" % (calls["f"][ka].tolist(),))
    return dict(violated=bad, nfev=int(sf.nfev), ngev=int(sf.ngev))


def _fragment_update(x, steplength, d, lb, ub):
    """Execute the iterate-update statements of the REAL main.py (between the failed-line-search test and the
    re-evaluation sf.fun_and_grad(x)) on concrete arrays."""
    import ast
    import os
    path = os.path.join(os.environ.get("SYMX_REPO", "/repo"), "lbfgsb", "main.py")
    src = open(path).read()
    tree = ast.parse(src)
    fn = next(n for n in tree.body if isinstance(n, ast.FunctionDef) and n.name == "minimize_lbfgsb")
    frag = None
    for node in ast.walk(fn):
        if isinstance(node, ast.If) and isinstance(node.test, ast.Compare) and getattr(node.test.left, "id", None) == "steplength":
            stmts = []
            for st in node.orelse:
                if isinstance(st, ast.Assign) and isinstance(st.value, ast.Call) and "fun_and_grad" in ast.unparse(st.value):
                    break
                stmts.append(st)
            frag = stmts
            break
    ns = dict(x=x, steplength=steplength, d=d, lb=lb, ub=ub, np=np)
    exec(compile(ast.Module(body=frag, type_ignores=[]), path, "exec"), ns)
    return ns["x"]


@register("fp_linesearch")
def run_fp_linesearch(c):
    """Exact-float feasibility of the points the real line search evaluates and of the iterate main.py forms."""
    from lbfgsb.linesearch import line_search
    from lbfgsb.scalar_function import prepare_scalar_function
    x, xbar, l, u = (np.array(c[k], dtype=float) for k in ("x", "xbar", "l", "u"))
    d = xbar - x
    out = []
    for shape in ("linear", "quadratic", "given"):
        pts = []
        gvec = np.array(c["g"], dtype=float)
        if shape == "given" and not (gvec.dot(d) < 0):
            continue
        if shape != "given":
            gvec = -d / max(d.dot(d), 1e-300)

        def f(z, _s=shape, _g=gvec):
            pts.append(np.array(z, float).copy())
            a = float((z - x).dot(_g))
            return a if _s != "quadratic" else a + 0.4 * a * a

        def g(z, _s=shape, _g=gvec):
            a = float((z - x).dot(_g))
            return _g if _s != "quadratic" else _g * (1 + 0.8 * a)
        sf = prepare_scalar_function(f, x, jac=g, bounds=(l, u))
        f0 = sf.fun(x)
        g0 = sf.grad(x)
        pts.clear()
        with np.errstate(all="ignore"):
            try:
                step = line_search(x.copy(), f0, g0, d, l, u, c["iter"], 1e8, bool(np.all(np.isfinite(l)) and np.all(np.isfinite(u))), sf, 1e-3, 0.9, 0.1, max(c["T"], 20), -1, None)
                exc = None
            except Exception as e:  # noqa
                step, exc = None, "%s: %s" % (type(e).__name__, e)
        bad_pts = [p.tolist() for p in pts if np.any(p < l) or np.any(p > u)]
        r = dict(shape=shape, step=None if step is None else float(step), exception=exc, outside=bad_pts[:3], n_points=len(pts))
        if step is not None:
            xn = _fragment_update(x.copy(), step, d, l, u)
            r["iterate"] = np.asarray(xn).tolist()
            r["iterate_outside"] = bool(np.any(xn < l) or np.any(xn > u))
        out.append(r)
    return dict(runs=out, d=d.tolist())


@register("fp_subspace")
def run_fp_subspace(c):
    from lbfgsb.bfgsmats import LBFGSB_MATRICES
    from lbfgsb.subspacemin import get_freev, subspace_minimization
    n = c["n"]
    x, xc, g, l, u = (np.array(c[k], dtype=float) for k in ("x", "xc", "g", "l", "u"))
    mats = LBFGSB_MATRICES(n)
    with np.errstate(all="ignore"):
        fv, Z, A = get_freev(xc, l, u, 0, None, -1, None)
        xbar = np.asarray(subspace_minimization(x, xc.copy(), fv, Z, A, np.zeros(1), g, l, u, mats), dtype=float)
    return dict(xbar=[v.hex() for v in xbar], outside=bool(np.any(xbar < l) or np.any(xbar > u)), l=[v.hex() for v in l], u=[v.hex() for v in u])


@register("fp_cauchy")
def run_fp_cauchy(c):
    from lbfgsb.bfgsmats import LBFGSB_MATRICES
    from lbfgsb.cauchy import get_cauchy_point
    n = c["n"]
    x, g, l, u = (np.array(c[k], dtype=float) for k in ("x", "g", "l", "u"))
    with np.errstate(all="ignore"):
        xcp, cc = get_cauchy_point(x.copy(), g, l, u, LBFGSB_MATRICES(n), 0, -1, None)
    xcp = np.asarray(xcp, dtype=float)
    return dict(x_cp=[v.hex() for v in xcp], outside=bool(np.any(xcp < l) or np.any(xcp > u)))
