"""Run concrete cases on the REAL package (real NumPy/SciPy, /repo working tree).

Usage: /venv/bin/python realrun.py < cases.json > results.json
Each case is a dict with a "kind"; the result is a dict (or {"error": ...}).
Used for (a) translator validation of path witnesses and (b) replay of counterexamples.
"""
import json
import math
import os
import sys
import traceback
from collections import deque

sys.path.insert(0, os.environ.get("SYMX_REPO", "/repo"))
sys.path.insert(0, os.path.dirname(os.path.abspath(__file__)))

import numpy as np  # noqa: E402


from reg import KINDS  # noqa: E402


def _clean(o):
    if isinstance(o, float):
        if math.isnan(o):
            return "nan"
        if math.isinf(o):
            return "inf" if o > 0 else "-inf"
        return o
    if isinstance(o, dict):
        return {k: _clean(v) for k, v in o.items()}
    if isinstance(o, (list, tuple)):
        return [_clean(v) for v in o]
    if isinstance(o, (np.floating,)):
        return _clean(float(o))
    if isinstance(o, (np.integer,)):
        return int(o)
    if isinstance(o, np.ndarray):
        return _clean(o.tolist())
    if isinstance(o, (np.bool_,)):
        return bool(o)
    return o


def main():
    # further kinds live in sibling modules that register themselves
    here = os.path.dirname(os.path.abspath(__file__))
    for mod in ("real_kernels", "real_runs"):
        if os.path.exists(os.path.join(here, mod + ".py")):
            __import__(mod)
    cases = json.load(sys.stdin)
    out = []
    for c in cases:
        try:
            out.append(_clean(KINDS[c["kind"]](c)))
        except Exception as e:
            out.append(dict(error="%s: %s" % (type(e).__name__, e), trace=traceback.format_exc()[-1500:]))
    json.dump(out, sys.stdout)


if __name__ == "__main__":
    main()
